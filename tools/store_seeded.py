#!/usr/bin/env python3
"""tools/store_seeded.py <seed-id> <property> <crate> <src-dir> <detected-by...>  -> /verif/seeded/<seed-id>/{patch.diff,demo.rs,NOTES.md,meta.json}"""
import sys, os, shutil, json, subprocess
sid, prop, crate, src = sys.argv[1:5]
detected = sys.argv[5:]
dst = f"/verif/seeded/{sid}"
os.makedirs(dst, exist_ok=True)
for f in ["patch.diff", "demo.rs", "NOTES.md"]:
    if os.path.exists(os.path.join(src, f)): shutil.copy(os.path.join(src, f), os.path.join(dst, f))
notes = open(os.path.join(dst, "NOTES.md")).read() if os.path.exists(os.path.join(dst, "NOTES.md")) else ""
meta = {
  "id": sid, "breaks_property": prop, "demo_crate": crate,
  "demo_cmd": f"cp demo.rs <checkout>/{crate}/tests/seeded_demo.rs && cargo test -p {crate} --test seeded_demo --offline",
  "base_commit": subprocess.run(["git","-C","/repo","rev-parse","--short","HEAD"],capture_output=True,text=True).stdout.strip(),
  "origin": "independent sub-agent given only the property text and a scratch worktree",
  "needs_to_manifest": "see NOTES.md (conditions section)",
  "confirmed_by_me": "tools/confirm_seeded.sh: existing 40 tests (+doc tests) pass with the change; demo fails with it; demo passes without it",
  "what_i_ran": [f"tools/confirm_seeded.sh {sid} seeded/{sid} {crate}", f"tools/try_seeded.sh seeded/{sid}/patch.diff"],
  "detected_by_quick_checks": detected,
}
json.dump(meta, open(os.path.join(dst, "meta.json"), "w"), indent=1)
print("stored", dst)
