#!/bin/bash
# tools/validate_regress.sh — for every "fixed:" entry of known_findings.txt: revert that single fix in a scratch worktree of /repo,
# build a scratch copy of the harness against it and replay the regression traces of that property: each trace must reproduce its
# recorded signature under at least one reverted fix (i.e. the corpus still means what it meant when it was recorded).
cd "$(dirname "$0")/.."
S=/tmp/seval; mkdir -p $S
if [ ! -d $S/repo ]; then git -C /repo worktree add -q --detach $S/repo HEAD; cp /repo/Cargo.lock $S/repo/; fi
rsync -a --delete --exclude target sim/ $S/sim/; sed -i "s|/repo/|$S/repo/|g" $S/sim/Cargo.toml
declare -A hit
grep '^fixed:' known_findings.txt | while read -r _ propkv commit rest; do
  prop=${propkv#property=}
  ( cd $S/repo && git checkout -q --detach $(git -C /repo rev-parse HEAD) && git checkout -q -- . && git revert -n $commit >/dev/null 2>&1 ) || { echo "$commit: cannot revert cleanly"; ( cd $S/repo && git revert --abort 2>/dev/null; git checkout -q -- . ); continue; }
  ( cd $S/sim && cargo build --release --offline >$S/build.log 2>&1 ) || { echo "$commit: build failed"; ( cd $S/repo && git reset -q --hard ); continue; }
  for f in corpus/regress/*.replay; do
    out=$($S/sim/target/release/renet-sim replay $f 2>&1); code=$?
    [ $code -eq 1 ] && echo "reverting $commit ($prop): $(basename $f) REPRODUCES"
  done
  ( cd $S/repo && git reset -q --hard )
done
