#!/bin/bash
# tools/try_seeded.sh <patch.diff> <prop>...   — applies a seeded change to /repo, runs the quick checks of the given
# properties (all claimed ones if none given), prints which detect it, and undoes the change (git checkout -- .).
cd "$(dirname "$0")/.."
patch=$(readlink -f "$1"); shift
props="$@"
[ -z "$props" ] && props=$(python3 -c "import json;print(' '.join(c['property_id'] for c in json.load(open('MANIFEST.json'))['checks']))")
if pgrep -x renet-sim >/dev/null; then echo "a renet-sim process is running (a sweep?): this script rebuilds the binary it uses with the change applied; use tools/try_seeded_scratch.sh instead" >&2; exit 2; fi
if ! git -C /repo diff --quiet; then echo "/repo has uncommitted changes; refusing" >&2; exit 2; fi
git -C /repo apply "$patch" || { echo "patch does not apply" >&2; exit 2; }
trap 'git -C /repo checkout -- . ; ./check build >/dev/null 2>&1' EXIT
export VERIF_ROOT=$(mktemp -d /tmp/seeded-eval.XXXX)   # evidence and replays of these runs do not touch /verif
mkdir -p $VERIF_ROOT/corpus && cp known_findings.txt $VERIF_ROOT/ && cp -r corpus/* $VERIF_ROOT/corpus/
./check build || exit 2
for p in $props; do
  out=$(sim/target/release/renet-sim check $p --tier ${TIER:-quick} 2>&1); code=$?
  sigs=$(echo "$out" | grep -E '^violation ' | sed -E 's/^violation ([^ ]+) .*/\1/' | sort -u | tr '\n' ' ')
  echo "$p exit=$code ${sigs}"
done
rm -rf $VERIF_ROOT
