#!/bin/bash
# tools/confirm_seeded.sh <id> <dir-with-patch.diff+demo.rs> <crate>
# Confirms in a scratch worktree (outside /repo and /verif): existing tests pass with the change, the demo fails with it and passes without it.
id=$1; dir=$(readlink -f $2); crate=$3
W=/tmp/confirm-wt
if [ ! -d $W ]; then git -C /repo worktree add -q --detach $W HEAD; cp /repo/Cargo.lock $W/; fi
cd $W && git checkout -q --detach $(git -C /repo rev-parse HEAD) && git checkout -q -- . && rm -f renet/tests/seeded_demo.rs renetcode/tests/seeded_demo.rs renet_netcode/tests/seeded_demo.rs
export CARGO_TARGET_DIR=$W/target CARGO_NET_OFFLINE=true
git apply $dir/patch.diff || { echo "$id: patch does not apply"; exit 2; }
t=$(cargo test -p renet -p renetcode -p renet_netcode --offline 2>&1 | grep -E "^test result" | awk '{p+=$4; f+=$6} END {print p" passed "f" failed"}')
mkdir -p $crate/tests && cp $dir/demo.rs $crate/tests/seeded_demo.rs
with=$(cargo test -p $crate --test seeded_demo --offline 2>&1 | grep -E "^test result" | head -1)
git apply -R $dir/patch.diff
without=$(cargo test -p $crate --test seeded_demo --offline 2>&1 | grep -E "^test result" | head -1)
rm -f $crate/tests/seeded_demo.rs
echo "$id: existing tests with change: $t | demo with change: $with | demo without: $without"
