#!/bin/bash
# tools/sweep.sh <tier> <seed>... : runs every claimed check at the given tier for each seed; prints only verdict lines.
# Meant for `vp run` snapshots and for the no-false-alarm sweeps of DESIGN.md section 11.
cd "$(dirname "$0")/.."
tier=$1; shift
props=$(python3 -c "import json;print(' '.join(c['property_id'] for c in json.load(open('MANIFEST.json'))['checks']))")
export VERIF_ROOT="$PWD"
./check build || exit 2
rc=0
for seed in "$@"; do
  for p in $props; do
    out=$(VERIF_SEED=$seed sim/target/release/renet-sim check $p --tier $tier 2>&1); code=$?
    echo "seed=$seed $p exit=$code $(echo "$out" | grep -E '^property ' | cut -c1-160)"
    echo "$out" | grep -E '^(VIOLATION|violation|harness|KNOWN-FINDING)' | cut -c1-400
    [ $code -ne 0 ] && rc=1
  done
done
exit $rc
