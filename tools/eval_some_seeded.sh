#!/bin/bash
# tools/eval_some_seeded.sh <Cxx>...  — like eval_all_seeded.sh, restricted to the stored changes (and own mutants) of the given
# properties; for re-measuring detection after a generator change that reshuffles the random streams of some families only.
cd "$(dirname "$0")/.."
for want in "$@"; do
  for d in seeded/$want-*/; do
    id=$(basename $d); prop=${id%%-*}
    props=$(python3 -c "import json,sys;m=json.load(open('$d/meta.json'));import re;l=[x.split()[0] for x in (m.get('detected_by_quick_checks') or ['$prop']) if re.match(r'^C\d\d\b',x)] or ['$prop'];print(' '.join(([x for x in l if x=='$prop'] or l[:1])))")
    r=$(tools/try_seeded_scratch.sh $d/patch.diff $props 2>&1 | grep -E "^C[0-9]+ exit=" | tail -1)
    case "$r" in *"exit=1"*) echo "DETECTED $id by ${r%% *} ($(echo $r | cut -d' ' -f3 | cut -c1-80))";; *) echo "MISSED   $id ($r)";; esac
  done
  for m in tools/mutants/$want-*.patch; do
    [ -f "$m" ] || continue
    id=$(basename $m .patch); prop=${id%%-*}
    r=$(tools/try_seeded_scratch.sh $m $prop 2>&1 | tail -1)
    case "$r" in *"exit=1"*) echo "DETECTED mutant $id";; *) echo "MISSED   mutant $id ($r)";; esac
  done
done
