#!/usr/bin/env python3
"""Writes /verif/MANIFEST.json from the table below (kept in one place so it stays valid)."""
import json, subprocess, os
ROOT = os.path.dirname(os.path.dirname(os.path.abspath(__file__)))

HOOK_COMMITS = subprocess.run(["git", "-C", "/repo", "log", "--format=%h %s", "--grep=^verif hooks"], capture_output=True, text=True).stdout.strip().splitlines()

TECH = "deterministic simulation with fault injection (seeded search over explicit op/fault traces, reference-model oracles)"
NOTE = ("Sampling, not proof. Trusted base: the harness' reference models and ledgers (sim/src), the renet codec re-exported by hook H1 for reading the wire, "
        "rustc/cargo, and for netcode properties the chacha20poly1305 crate. Network, clock, OS randomness and UDP sockets are simulated; everything else is the real code built from /repo's working tree.")

CLAIMED = {
 "C01": ("A", "6 C01", "ReliableOrdered exactly-once/in-order/intact under loss, duplication, reordering, delay, partitions, clock skew; bounded delivery after heal. Oracle: prefix check of everything obtained against the ledger of accepted submissions; heal-phase liveness bound computed from the configuration."),
 "C02": ("A", "6 C02", "ReliableUnordered at-most-once/intact/no head-of-line wait/all delivered after heal. Oracle: multiset ledger; 'complete message must come out of the next drain'; heal-phase liveness; no within-budget strict-prompt run loses an unordered channel to a spurious budget disconnect."),
 "C03": ("A", "6 C03", "Integrity of every obtained message on every channel kind (self-describing payloads), unreliable multiplicity bounded by per-packet delivery counts, no partial/stitched messages; wire content of every emitted packet checked against the ledger; a sliced unreliable id is never used twice; volleys of 40-100 messages."),
 "C06": ("A", "6 C06", "Hostile packets (mutated genuine, forged through the crate's encoder at field boundaries, consistent forged sliced messages, one id reused for small and sliced messages of changing counts, truncations, junk) injected into live multi-client sessions in arbitrary states: no panic, only that connection drops, accounting within bounds, other connections keep all their oracles."),
 "C08": ("A", "6 C08", "Sender releases a reliable message only after every needed packet was handed to the peer; every emitted ack only names sequences really received (ledger of deliveries vs. unacked set via hook)."),
 "C09": ("A", "6 C09", "Exact send-side accounting against the ledger after every op, receive accounting bounds, budgets whole and receive memory zero at quiescence after heal, no spurious budget disconnect for strict-prompt within-budget runs."),
 "C11": ("A", "6 C11", "Multi-client runs with unicast/broadcast/broadcast_except, independent fault schedules, a hostile and/or absent client: recipients exact (payloads name the connection), healthy clients meet their liveness bound."),
 "C12": ("A", "6 C12", "Random public-API histories (add/remove/disconnect/local clients/status setters/transport disconnect) with monitors: finality and first reason of every connection object, dead connections emit/accept/yield nothing, strict event alternation and event reason = first reason; reference event queue compared at every poll (polled after every call or once per tick); every cause of disconnection takes effect in every live state."),
 "C13": ("A", "6 C13", "Every packet from get_packets_to_send <= 1300 bytes and serialization never fails, with counter teleport across varint widths and burst-reverse-sparse arrivals that grow the ack list; no ack packet carries more than 64 ranges."),
 "C14": ("A", "6 C14", "Per flush, decoded with the crate's codec: payload bytes <= budget; no eligible item of an earlier channel unsent while later channels were served with enough bytes; unreliable messages whole-or-nothing in exactly one flush."),
 "C15": ("A", "6 C15", "Per item transmission ledger on the sender clock: never earlier than resend_time, always at the first flush where the timer elapsed and budget is left, never after the reference model processed an ack for it (3 s horizon modelled; acks read from the wire bytes by the harness's own decoder); acknowledged within a bound after heal."),
 "C16": ("A", "6 C16", "PARTIAL CLAIM: the ack clause (ack packet == recorded set == reference model of the pending set, newest 64 ranges, well-formed) is decided by simulation; round-trip clauses are monitored on all simulated traffic, on decodable hostile strings and on tokens with edge lifetimes only. The all-inputs clauses are not decided by this family (see DESIGN.md C16)."),
}
PENDING = {
 "C04": "engine B (netcode) not built yet in this revision",
 "C05": "engine B (netcode) not built yet in this revision",
 "C07": "engine B (netcode) not built yet in this revision",
 "C10": "engine B (netcode) not built yet in this revision",
 "C17": "engine B (netcode) not built yet in this revision",
 "C18": "engine B (netcode) not built yet in this revision",
 "C19": "engine B (netcode) not built yet in this revision",
 "C20": "engine C (full stack over simulated UDP) not built yet in this revision",
}
# engines B and C register themselves here once they exist
import sys
sys.path.insert(0, os.path.dirname(os.path.abspath(__file__)))
try:
    from manifest_extra import CLAIMED_EXTRA, PENDING_DROP
    CLAIMED.update(CLAIMED_EXTRA)
    for k in PENDING_DROP: PENDING.pop(k, None)
except ImportError:
    pass

checks = []
for pid in sorted(CLAIMED):
    eng, ref, text = CLAIMED[pid]
    checks.append({
        "property_id": pid,
        "quick_cmd": f"./check {pid} --tier quick",
        "thorough_cmd": f"./check {pid} --tier thorough",
        "evidence_file": f"/verif/evidence/{pid}.json",
        "replay_cmd_template": "./check replay {path}",
        "engine": eng,
        "level_claimed": {"category": "exploration", "text": text, "design_ref": f"DESIGN.md section {ref}"},
        "level_note": NOTE,
        "technique": TECH,
    })
m = {
  "version": 1,
  "setup_cmd": "./check build",
  "hooks": {
    "guard": "cargo feature 'verif' on renet, renetcode, renet_netcode (off by default)",
    "enable": "the harness crate /verif/sim depends on /repo/renet, /repo/renetcode, /repo/renet_netcode by path with features=[\"verif\"]; ./check rebuilds it with cargo build --release --offline",
    "baseline_off_cmd": "cd /repo && cargo test --workspace --no-fail-fast --offline",
    "source_commits": HOOK_COMMITS,
    "add_only": False,
  },
  "engines": [
    {"name": "A", "path": "sim/src/eng_a", "serves_properties": sorted(p for p in CLAIMED if CLAIMED[p][0]=="A"), "kind_free_text": "real RenetServer + RenetClients over simulated packet pools; reference models of sent-packet map, pending-ack set, message ledgers"},
    {"name": "B", "path": "sim/src/eng_b", "serves_properties": sorted(p for p in CLAIMED if "B" in CLAIMED[p][0].split("+")), "kind_free_text": "real NetcodeServer + NetcodeClients + on-path adversary over a simulated datagram network with seeded RNG"},
    {"name": "D", "path": "sim/src/eng_d.rs", "serves_properties": sorted(p for p in CLAIMED if "D" in CLAIMED[p][0].split("+")), "kind_free_text": "real NetcodeServer with its tables at their real sizes (limit up to the 1024-client ceiling) + up to 1100 real NetcodeClients on an immediate loss-free hand-over; the seeded schedule orders handshake stages, limit changes, disconnects, crashes and ticks"},
    {"name": "C", "path": "sim/src/eng_c", "serves_properties": sorted(p for p in CLAIMED if CLAIMED[p][0]=="C"), "kind_free_text": "real renet_netcode transports + RenetServer/RenetClient over a simulated UdpSocket with an in-path relay"},
  ],
  "checks": checks,
  "not_applicable": [{"property_id": k, "reason": v} for k, v in sorted(PENDING.items())],
  "notes": "add_only=false: hook H7 splits the `use std::{io, net::{SocketAddr, UdpSocket}, time::Duration}` line of renet_netcode/src/{client,server}.rs into a cfg'd pair of imports, and hook H8 routes the field type and constructor of RenetServer's connection table through a cfg'd type alias (seedable hasher); no other existing line is changed. Known findings and repaired defects: /verif/known_findings.txt. Exit codes: 0 held, 1 violation, 2 harness/build error.",
}
json.dump(m, open(os.path.join(ROOT, "MANIFEST.json"), "w"), indent=1)
print("wrote MANIFEST.json with", len(checks), "checks;", len(PENDING), "not claimed")
