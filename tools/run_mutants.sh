#!/bin/bash
# tools/run_mutants.sh [pattern]  — own mutant suite (tools/mutants/*.patch): for each, do the existing tests still pass, and does the
# quick tier of the property named by the file prefix detect it? Uses the scratch evaluator (never touches /repo).
cd "$(dirname "$0")/.."
for m in tools/mutants/${1:-*}.patch; do
  name=$(basename $m .patch); prop=${name%%-*}
  S=/tmp/seval
  ( cd $S/repo 2>/dev/null && git checkout -q -- . ) 
  res=$(tools/try_seeded_scratch.sh $m $prop 2>&1 | tail -1 | cut -c1-160)
  git -C $S/repo apply $(readlink -f $m)
  t=$(cd $S/repo && CARGO_TARGET_DIR=$S/repo/target cargo test -p renet -p renetcode -p renet_netcode --offline 2>&1 | grep -E "^test result" | awk '{p+=$4; f+=$6} END {print p"p/"f"f"}')
  git -C $S/repo checkout -q -- .
  echo "$name | existing tests $t | $res"
done
