#!/bin/bash
# tools/try_seeded_scratch.sh <patch.diff> <prop>...  — like try_seeded.sh but never touches /repo: the patch is applied to a
# scratch worktree of /repo's HEAD and the harness is built from a scratch copy of /verif/sim whose path dependencies point there.
# Lets seeded changes be evaluated while long sweeps run against /repo. Everything lives under /tmp/seval and is reused.
cd "$(dirname "$0")/.."
patch=$(readlink -f "$1"); shift
props="$@"
[ -z "$props" ] && props=$(python3 -c "import json;print(' '.join(c['property_id'] for c in json.load(open('MANIFEST.json'))['checks']))")
S=${SEVAL_DIR:-/tmp/seval}
mkdir -p $S
if [ ! -d $S/repo ]; then git -C /repo worktree add -q --detach $S/repo HEAD; cp /repo/Cargo.lock $S/repo/; fi
( cd $S/repo && git checkout -q --detach $(git -C /repo rev-parse HEAD) && git checkout -q -- . ) || exit 2
git -C $S/repo apply "$patch" || { echo "patch does not apply" >&2; exit 2; }
rsync -a --delete --exclude target sim/ $S/sim/
sed -i "s|/repo/|$S/repo/|g" $S/sim/Cargo.toml
( cd $S/sim && CARGO_NET_OFFLINE=true cargo build --release --offline >$S/build.log 2>&1 ) || { echo "build failed"; tail -5 $S/build.log; git -C $S/repo checkout -q -- .; exit 2; }
export VERIF_ROOT=$S/root; rm -rf $VERIF_ROOT; mkdir -p $VERIF_ROOT/corpus; cp known_findings.txt $VERIF_ROOT/; cp -r corpus/* $VERIF_ROOT/corpus/
for p in $props; do
  out=$($S/sim/target/release/renet-sim check $p --tier ${TIER:-quick} 2>&1); code=$?
  echo "$out" > $S/last_$p.log
  [ $code = 2 ] && echo "$out" | grep -i "harness" | head -3
  sigs=$(echo "$out" | grep -E '^violation ' | sed -E 's/^violation ([^ ]+) .*/\1/' | sort -u | tr '\n' ' ')
  echo "$p exit=$code ${sigs}"
done
git -C $S/repo checkout -q -- .
