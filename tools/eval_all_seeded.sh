#!/bin/bash
# tools/eval_all_seeded.sh — re-evaluates every stored seeded change (seeded/<id>/patch.diff) and every own mutant against the quick
# tier of its property, through the scratch evaluator (never touches /repo). One line per change: DETECTED / MISSED.
cd "$(dirname "$0")/.."
for d in seeded/*/; do
  id=$(basename $d); prop=${id%%-*}
  # the checks that meta.json records as detecting it (its own property's check unless the changed file belongs to another domain)
  props=$(python3 -c "import json,sys;m=json.load(open('$d/meta.json'));import re;l=[x.split()[0] for x in (m.get('detected_by_quick_checks') or ['$prop']) if re.match(r'^C\d\d\b',x)] or ['$prop'];print(' '.join(([x for x in l if x=='$prop'] or l[:1])))")
  r=$(tools/try_seeded_scratch.sh $d/patch.diff $props 2>&1 | grep -E "^C[0-9]+ exit=" | tail -1)
  case "$r" in *"exit=1"*) echo "DETECTED $id by ${r%% *} ($(echo $r | cut -d' ' -f3 | cut -c1-80))";; *) echo "MISSED   $id ($r)";; esac
done
for m in tools/mutants/*.patch; do
  id=$(basename $m .patch); prop=${id%%-*}
  r=$(tools/try_seeded_scratch.sh $m $prop 2>&1 | tail -1)
  case "$r" in *"exit=1"*) echo "DETECTED mutant $id";; *) echo "MISSED   mutant $id ($r)";; esac
done
