//! Engine B: operation generator and the PRNG-free heal phase (handshake liveness).
use super::*;

impl WorldB {
    fn pick_dt(&self, rng: &mut Rng) -> u64 {
        let timeout = self.cfg.get("timeout");
        let mut dt = *rng.pick(&[0u64, 16, 16, 16, 50, 100, 100, 249, 250, 251, 500, 1000, 2000]);
        if rng.chance(1, 25) && timeout < 100 {
            dt = *rng.pick(&[timeout * 1000 - 1, timeout * 1000, timeout * 1000 + 1, timeout * 1000 + 500]);
        }
        if rng.chance(1, 60) {
            let expire = self.cfg.get("expire");
            dt = *rng.pick(&[expire * 1000 - 1, expire * 1000, expire * 1000 + 1, expire * 1000 + 1001]);
        }
        dt
    }

    fn pool_index(&self, rng: &mut Rng, n: usize) -> u64 {
        if n == 0 {
            return 0;
        }
        match self.cfg.get("reorder") {
            0 => 0,
            1 => rng.below(n as u64),
            _ => {
                if rng.chance(1, 2) {
                    (n - 1) as u64
                } else {
                    0
                }
            }
        }
    }

    pub fn gen(&mut self, rng: &mut Rng) -> Op {
        if let Some(op) = self.warm_queue.pop_front() {
            return op;
        }
        if let Some(op) = self.scenario_step(rng) {
            return op;
        }
        let ns = self.slots.len() as u64;
        let slot = rng.below(ns) as usize;
        let dir = rng.below(2) as usize;
        let loss = self.cfg.get("loss") as u32;
        let dup = self.cfg.get("dup");
        let adv = self.cfg.get("adv") as u32; // 0 none, 1 replay/junk only, 2 full, 3 hostile-heavy
        let fam = self.cfg.family.as_str();
        // a slot without client gets one soon
        if self.slots[slot].client.is_none() && rng.chance(3, 4) {
            return Op::new(K_NEWCLIENT, slot as u64, rng.below(8), self.pick_variant(rng), rng.below(16));
        }
        let in_flight = if dir == 0 { self.slots[slot].c2s.len() } else { self.slots[slot].s2c.len() };
        // newclient, tickclient, tickserver, deliver, drop, dropall, deliverall, genpayload, cdisc, sdisc, setmax,
        // junk, mutate, replay, forgereq, forgeresp, forgesess, tamper, restart, teleport, surgery, crash
        let mut w: [u32; 22] = [2, 30, 22, 40, 0, 0, 4, 10, 1, 1, 1, 0, 0, 0, 0, 0, 0, 0, 0, 0, 0, 1];
        w[4] = (40 * loss) / (100 - loss.min(90));
        w[5] = if loss > 0 { 1 } else { 0 };
        if in_flight == 0 {
            w[3] = 3;
            w[4] = 0;
        }
        if self.cfg.get("tele") == 1 {
            w[19] = 2;
        }
        match adv {
            0 => {}
            1 => {
                w[11] = 4;
                w[13] = 6;
            }
            2 => {
                w[11] = 3;
                w[12] = 5;
                w[13] = 8;
                w[14] = 6;
                w[15] = 6;
                w[16] = 6;
                w[17] = 1;
            }
            _ => {
                w[11] = 25;
                w[12] = 15;
                w[13] = 8;
                w[14] = 8;
                w[15] = 4;
                w[16] = 15;
                w[17] = 1;
                w[20] = 6;
            }
        }
        if self.cfg.get("setmax") == 1 {
            w[10] = 8;
            w[0] = 8;
        }
        if adv >= 2 && self.cfg.get("expire") <= 5 && matches!(fam, "handshake" | "hostile") && rng.chance(1, 80) {
            return Op::new(K_STALERESP, rng.below(8), 0, 0, 0);
        }
        if adv >= 2 && in_flight > 0 && rng.chance(1, if adv >= 3 { 25 } else { 50 }) {
            return Op::new(K_REFRAME, slot as u64, dir as u64, rng.below(in_flight as u64), rng.below(8));
        }
        if adv >= 1 && matches!(fam, "hostile" | "handshake") && rng.chance(1, 12) && self.slots[slot].c2s.iter().any(|&ix| self.ledger[ix].ptype == T_REQUEST) {
            return Op::new(K_TAGSQUAT, slot as u64, rng.below(8), rng.below(8), rng.below(1008 * 8));
        }
        match fam {
            "handshake" => {
                if adv >= 2 && rng.chance(1, 30) {
                    return Op::new(K_CROSSRESP, rng.below(8), rng.below(64), 0, rng.below(7));
                }
                if adv >= 1 && rng.chance(1, 60) && self.tokens.iter().any(|t| t.adv_owned && t.expire_ts * 1000 <= self.sv_ms + 6000) {
                    return Op::new(K_FORGEEXPIRY, rng.below(8), 0, rng.below(100_000), 0);
                }
                if adv >= 2 && !self.flooded && rng.chance(1, 600) {
                    return Op::new(K_FLOODSTEAL, rng.below(8), 0, 0, 0);
                }
                w[0] = 5;
                w[10] = 2;
                w[18] = 1;
                w[7] = 3;
            }
            "session" => {
                if rng.chance(1, 40) {
                    return Op::new(K_GENBURST, slot as u64, rng.below(2), rng.below(200), 0);
                }
                if adv >= 1 && rng.chance(1, 40) {
                    return Op::new(K_STALEHS, slot as u64, rng.below(16), 0, 0);
                }
                w[7] = 25;
                w[16] *= 2;
                w[13] *= 2;
            }
            "liveness" => {
                w[10] = 3;
                w[0] = 3;
                w[21] = 2;
            }
            "tamper" => {
                w[17] = 12;
            }
            _ => {}
        }
        match rng.weighted(&w) {
            0 => Op::new(K_NEWCLIENT, slot as u64, rng.below(8), self.pick_variant(rng), rng.below(16)),
            1 => Op::new(K_TICKCLIENT, slot as u64, self.pick_dt(rng), 0, 0),
            2 => Op::new(K_TICKSERVER, self.pick_dt(rng), if rng.chance(1, 4) { 1 } else if rng.chance(1, 6) { 2 } else { 0 }, 0, 0),
            3 => {
                let keep = if dup > 0 && rng.below(100) < dup { 1 } else { 0 };
                Op::new(K_DELIVER, slot as u64, dir as u64, self.pool_index(rng, in_flight), keep)
            }
            4 => Op::new(K_DROP, slot as u64, dir as u64, self.pool_index(rng, in_flight), 0),
            5 => Op::new(K_DROPALL, slot as u64, dir as u64, 0, 0),
            6 => Op::new(K_DELIVERALL, slot as u64, dir as u64, rng.below(2), 0),
            7 => {
                let len = *rng.pick(&[0u64, 1, 8, 100, 1000, 1299, 1300, 1300]);
                Op::new(K_GENPAYLOAD, slot as u64, rng.below(2), len, 0)
            }
            8 => Op::new(K_CLIENTDISC, slot as u64, 0, 0, 0),
            9 => Op::new(K_SERVERDISC, rng.below(8), if rng.chance(1, 3) { 1 } else { 0 }, 0, 0),
            10 => Op::new(K_SETMAX, rng.below(5), 0, 0, 0),
            11 => Op::new(K_JUNK, rng.below(ns + 1), rng.below(ns + 1), rng.next() >> 20, rng.next() >> 20),
            12 => Op::new(K_MUTATE, slot as u64, dir as u64, rng.next() >> 20, rng.next() >> 20),
            13 => Op::new(K_REPLAY, rng.next() >> 20, rng.below(4), rng.below(4), rng.below(16)),
            14 => Op::new(K_FORGEREQ, rng.below(64), rng.below(ns + 1), rng.below(10), rng.next() >> 20),
            15 => Op::new(K_FORGERESP, rng.below(64), rng.below(64), rng.below(ns + 1), rng.below(1 << 16)),
            16 => Op::new(K_FORGESESS, rng.below(64), rng.below(24), rng.next() >> 20, rng.next() >> 20),
            17 => Op::new(K_TAMPER, slot as u64, dir as u64, self.pool_index(rng, in_flight), 0),
            18 => Op::new(K_RESTART, 0, 0, 0, 0),
            19 => Op::new(K_TELEPORT, slot as u64, rng.below(2), rng.below(8), 0),
            20 => Op::new(K_TOKENSURGERY, rng.below(64), rng.below(10), rng.next() >> 20, 0),
            _ => Op::new(K_CRASH, slot as u64, 0, 0, 0),
        }
    }

    /// Generator-side script for the "late denial" scenario (see `Scn`). Looks at the world before every step, so the
    /// pool indexes it emits are exact; gives up silently when the world does not follow (somebody else took the slot, ...).
    fn scenario_step(&mut self, rng: &mut Rng) -> Option<Op> {
        if self.scn.is_none() {
            let full = self.max_clients_cur > 0 && self.server.connected_clients() >= self.max_clients_cur;
            if self.cfg.family != "session" || !full || !rng.chance(1, 25) {
                return None;
            }
            let connected = self.server.clients_id();
            let cands: Vec<usize> = (0..self.slots.len())
                .filter(|&j| !self.slots[j].hostile && !self.slots[j].client.as_ref().map(|c| c.is_connected()).unwrap_or(false) && !self.sessions.values().any(|s| s.addr == self.slots[j].addr))
                .collect();
            if cands.is_empty() {
                return None;
            }
            let j = *rng.pick(&cands);
            let nids = self.cfg.get("nids").max(1);
            let b = (0..8u64).find(|b| !connected.contains(&(1 + (b % nids))))?;
            self.scn = Some(Scn { stage: 1, slot: j, epoch: self.slots[j].epoch + 1, denial_seq: 0, sent: 0 });
            return Some(Op::new(K_NEWCLIENT, j as u64, b, 0, 8));
        }
        let mut sc = self.scn.take().unwrap();
        let j = sc.slot;
        if self.slots[j].epoch != sc.epoch || self.slots[j].client.is_none() {
            return None;
        }
        let tid = self.slots[j].tid;
        let find = |w: &WorldB, t: u8| w.slots[j].s2c.iter().position(|&ix| w.ledger[ix].ptype == t && w.ledger[ix].tid == Some(tid) && matches!(w.ledger[ix].producer, Producer::Server { .. }));
        let ju = j as u64;
        let op = match sc.stage {
            1 => Op::new(K_TICKCLIENT, ju, 16, 0, 0),
            2 => Op::new(K_DELIVERALL, ju, 0, 0, 0),
            3 => {
                let d = find(self, T_DENIED)?;
                sc.denial_seq = self.ledger[self.slots[j].s2c[d]].seq;
                let n = self.server.clients_id().len() as u64;
                if n == 0 || sc.denial_seq > 40 {
                    return None;
                }
                Op::new(K_SERVERDISC, rng.below(n), 0, 0, 0)
            }
            4 => Op::new(K_TICKCLIENT, ju, 300, 0, 0),
            5 => Op::new(K_DELIVERALL, ju, 0, 0, 0),
            6 => Op::new(K_DELIVER, ju, 1, find(self, T_CHALLENGE)? as u64, 0),
            7 => Op::new(K_TICKCLIENT, ju, 16, 0, 0),
            8 => Op::new(K_DELIVERALL, ju, 0, 0, 0),
            9 => Op::new(K_DELIVER, ju, 1, find(self, T_KEEPALIVE)? as u64, 0),
            10 => {
                if !self.slots[j].client.as_ref().map(|c| c.is_connected()).unwrap_or(false) {
                    return None;
                }
                Op::new(K_DELIVER, ju, 1, find(self, T_DENIED)? as u64, 0)
            }
            11 => {
                // the server's packet numbers for this session: the accept was 0, every payload takes the next one
                let newest = self.slots[j].s2c.iter().map(|&ix| &self.ledger[ix]).filter(|r| r.tid == Some(tid) && r.ptype == T_PAYLOAD).map(|r| r.seq).max();
                if newest.map(|s| s > sc.denial_seq).unwrap_or(false) || sc.sent > 45 {
                    sc.stage = 12;
                    Op::new(K_DELIVERALL, ju, 1, 0, 0)
                } else {
                    sc.sent += 1;
                    sc.stage = 10; // stays in 11 after the increment below
                    Op::new(K_GENPAYLOAD, ju, 1, 9, 0)
                }
            }
            _ => return None,
        };
        sc.stage += 1;
        if sc.stage <= 12 {
            self.scn = Some(sc);
        }
        Some(op)
    }

    fn pick_variant(&self, rng: &mut Rng) -> u64 {
        match self.cfg.family.as_str() {
            "handshake" | "hostile" => *rng.pick(&[0u64, 0, 0, 0, 1, 2, 3, 4, 4, 5]),
            "liveness" => 0,
            _ => *rng.pick(&[0u64, 0, 0, 4]),
        }
    }

    fn round(&mut self, dt: u64, obs: &mut Obs) {
        let ns = self.slots.len();
        if self.cfg.get("heal_lag") == 1 {
            // a healed network with a latency of one round each way: what a party sent during its tick reaches the peer only
            // after the peer's next tick, so every handshake step sees at least one update while its answer is in flight
            for j in 0..ns {
                self.apply_op(&Op::new(K_DELIVERALL, j as u64, 1, 0, 0), obs);
            }
            for j in 0..ns {
                self.apply_op(&Op::new(K_DELIVERALL, j as u64, 0, 0, 0), obs);
            }
            for j in 0..ns {
                self.apply_op(&Op::new(K_TICKCLIENT, j as u64, dt, 0, 0), obs);
            }
            self.apply_op(&Op::new(K_TICKSERVER, dt, 0, 0, 0), obs);
            return;
        }
        for j in 0..ns {
            self.apply_op(&Op::new(K_TICKCLIENT, j as u64, dt, 0, 0), obs);
        }
        self.apply_op(&Op::new(K_TICKSERVER, dt, 0, 0, 0), obs);
        for j in 0..ns {
            self.apply_op(&Op::new(K_DELIVERALL, j as u64, 0, 0, 0), obs);
        }
        for j in 0..ns {
            self.apply_op(&Op::new(K_DELIVERALL, j as u64, 1, 0, 0), obs);
        }
    }

    pub fn run_epilogue(&mut self, obs: &mut Obs) {
        if self.cfg.get("no_epilogue") == 1 {
            return;
        }
        let ns = self.slots.len();
        // fresh arrivals: every honest slot whose client is gone or has given up gets a new client with a new valid token
        // (PRNG-free), so that the handshake-liveness clause is exercised against whatever state the random phase left behind
        if self.cfg.family == "liveness" || self.cfg.family == "handshake" {
            let free = self.max_clients_cur.saturating_sub(self.server.connected_clients() + self.server.verif_pending().len());
            let mut added = 0;
            for j in 0..ns {
                let gone = self.slots[j].client.as_ref().map(|c| c.is_disconnected()).unwrap_or(true);
                let has_session = self.sessions.values().any(|x| x.addr == self.slots[j].addr);
                if gone && !self.slots[j].hostile && !has_session && added < free {
                    // an identity nobody else uses
                    let id = 1000 + j as u64;
                    let (e, t, d, n) = self.token_params_pub(0);
                    let tid = self.issue_token(id, 0, e.max(60), t, d, n);
                    self.new_client(j, tid);
                    obs.count("epilogue.fresh_client");
                    added += 1;
                }
            }
        }
        // which clients may be expected to complete their handshake once the network delivers?
        let mut want: Vec<usize> = Vec::new();
        let connected_now = self.server.connected_clients();
        let connected_ids: Vec<u64> = self.server.clients_id();
        let mut budget_rounds = 0u64;
        // every client that is still trying with a token the server would accept competes for a slot
        let contenders: Vec<usize> = (0..ns)
            .filter(|&j| {
                let s = &self.slots[j];
                let t = &self.tokens[s.tid];
                s.client.as_ref().map(|c| c.is_connecting()).unwrap_or(false) && t.key_ok && t.protocol_ok && t.lists_server
            })
            .collect();
        for &j in &contenders {
            let s = &self.slots[j];
            let c = s.client.as_ref().unwrap();
            if s.hostile || s.rx_taint {
                continue;
            }
            let t = &self.tokens[s.tid];
            // token used before by this or another client object, or already turned into a session once:
            // a stale half-open entry, token entry or session may legitimately be in the way
            let fresh_token = self.slots.iter().enumerate().all(|(k, o)| k == j || o.tid != s.tid || o.epoch == 0) && t.issued_for_incarnation == self.incarnation && !t.ever_connected;
            if !fresh_token {
                continue;
            }
            // where is the client in its address list, and how much of the current attempt's timeout is left?
            let cur = c.server_addr();
            let addrs: Vec<SocketAddr> = t.token.server_addresses.iter().flatten().copied().collect();
            let Some(k) = addrs.iter().position(|a| *a == cur) else { continue };
            let Some(first_live) = (k..addrs.len()).find(|&i| self.is_server_addr(addrs[i])) else {
                obs.count("epilogue.liveness_skipped_no_live_address_left");
                continue;
            };
            // handshake packets still in flight towards an address the client has already given up on can create a
            // session the client does not know about (it then has to wait for that session to time out)
            if s.c2s.iter().any(|&ix| self.ledger[ix].dst != cur) {
                obs.count("epilogue.liveness_skipped_stale_packets_to_abandoned_address");
                continue;
            }
            let dead_before = (first_live - k) as u64;
            if t.timeout <= 0 && dead_before > 0 {
                continue;
            }
            let tmo_ms = t.timeout.max(0) as u64 * 1000;
            if t.timeout > 0 && dead_before == 0 {
                let since = c.time_since_last_received_packet().as_millis() as u64;
                if since + 700 > tmo_ms {
                    // the attempt at the live address is about to time out: the client may legitimately move on
                    obs.count("epilogue.liveness_skipped_attempt_about_to_time_out");
                    continue;
                }
            }
            let need_ms = (dead_before + 1) * tmo_ms + 20 * 250;
            let server_left_ms = (t.expire_ts * 1000).saturating_sub(self.sv_ms);
            let client_elapsed = s.clock_ms - s.created_ms;
            let client_total = (t.token.expire_timestamp - t.token.create_timestamp) * 1000;
            if server_left_ms < need_ms + 2000 || client_elapsed + need_ms + 2000 > client_total {
                continue;
            }
            // the identity must not be contested: not connected, and no other contender holds a token for the same id
            if connected_ids.contains(&t.id) || self.sessions.values().any(|x| x.addr == s.addr) {
                continue;
            }
            // (also a client that already gave up: its handshake packets may still be in flight and win the id)
            if (0..ns).any(|k2| k2 != j && self.slots[k2].epoch > 0 && self.tokens[self.slots[k2].tid].id == t.id) {
                continue;
            }
            if self.server.verif_pending().iter().any(|(a, pid)| *pid == t.id && *a != s.addr) {
                continue;
            }
            // a request with another token from this client's address (spoofed, or an earlier client object) resets its half-open entry
            // (the entry now holds other keys; a client that is already responding does not send requests any more)
            if self.server.verif_pending().iter().any(|(a, pid)| *a == s.addr && *pid != t.id) || self.pend_model.get(&s.addr).map(|p| p.0 != s.tid).unwrap_or(false) {
                obs.count("epilogue.liveness_skipped_half_open_entry_reset_by_other_token");
                continue;
            }
            // a client that is already responding needs its half-open entry: the server drops that entry when a response
            // arrives while the id is connected elsewhere, and a responding client does not send requests any more
            let last_emitted = self.ledger.iter().rev().find(|r| r.producer == Producer::Client { slot: j, epoch: s.epoch }).map(|r| r.ptype);
            // (a challenge that has reached the client counts: it answers with responses from its next update on)
            // ... and so does one that is still on its way to it
            let challenge_in_flight = s.s2c.iter().any(|&ix| self.ledger[ix].ptype == T_CHALLENGE && !self.ledger[ix].certainly_bogus);
            if (last_emitted == Some(T_RESPONSE) || self.slot_challenge(j).is_some() || challenge_in_flight) && self.pend_model.get(&s.addr).map(|p| p.0 != s.tid).unwrap_or(true) {
                obs.count("epilogue.liveness_skipped_responding_without_half_open_entry");
                continue;
            }
            // a denial issued while the server was full may still be in flight
            if s.s2c.iter().any(|&ix| self.ledger[ix].ptype == T_DENIED) {
                continue;
            }
            // whoever presents a token first binds it to its address: an on-path adversary racing the request wins
            if t.presented.iter().any(|(a, _)| *a != s.addr) || t.first_addr.map(|a| a != s.addr).unwrap_or(false) {
                obs.count("epilogue.liveness_skipped_token_presented_from_other_address");
                continue;
            }
            want.push(j);
            budget_rounds = budget_rounds.max(need_ms / 100 + 10);
        }
        // every half-open entry may still turn into a session (its response can be in flight), as may every contender
        let mut claimants: Vec<SocketAddr> = self.server.verif_pending().iter().map(|(a, _)| *a).collect();
        for &j in &contenders {
            if !claimants.contains(&self.slots[j].addr) {
                claimants.push(self.slots[j].addr);
            }
        }
        // as may every address with handshake packets still in flight to the server (a rival whose request and response
        // arrive back to back takes a slot without ever showing up as a half-open entry between two rounds)
        for k in 0..ns {
            for &ix in &self.slots[k].c2s {
                let r = &self.ledger[ix];
                if (r.ptype == T_REQUEST || r.ptype == T_RESPONSE) && !r.certainly_bogus && !claimants.contains(&r.src) {
                    claimants.push(r.src);
                }
            }
        }
        let capacity_ok = connected_now + claimants.len() <= self.max_clients_cur;
        if !capacity_ok {
            obs.count("epilogue.liveness_skipped_capacity");
            want.clear();
        }
        let pending_foreign: Vec<usize> = want
            .iter()
            .copied()
            .filter(|&j| {
                let id = self.tokens[self.slots[j].tid].id;
                self.server.verif_pending().iter().any(|(a, pid)| *a == self.slots[j].addr && *pid != id)
            })
            .collect();
        if !pending_foreign.is_empty() {
            obs.count("probe.half_open_entry_of_other_token_in_the_way");
        }
        let mut connected_round: Vec<Option<u64>> = vec![None; ns];
        let total_rounds = budget_rounds.max(12);
        for r in 0..total_rounds {
            self.round(100, obs);
            for &j in &want {
                if connected_round[j].is_none() {
                    let id = self.tokens[self.slots[j].tid].id;
                    let cl = self.slots[j].client.as_ref().map(|c| c.is_connected()).unwrap_or(false);
                    if cl && self.server.is_client_connected(id) {
                        connected_round[j] = Some(r + 1);
                    }
                }
            }
            if !want.is_empty() && want.iter().all(|&j| connected_round[j].is_some()) && r >= 11 {
                break;
            }
        }
        for &j in &want {
            obs.count("oracle.C18.handshake_liveness");
            if connected_round[j].is_none() {
                let s = &self.slots[j];
                let c = s.client.as_ref().unwrap();
                let state = if c.is_connected() {
                    "client-connected-server-not".to_string()
                } else if let Some(r) = c.disconnect_reason() {
                    format!("client-gave-up-{:?}", r)
                } else {
                    "still-connecting".to_string()
                };
                let disc = if pending_foreign.contains(&j) { format!("{}/half-open-entry-of-other-token", state) } else { state };
                obs.violate(
                    "C18",
                    "handshake-not-completed-after-heal",
                    &disc,
                    format!("slot {} id {} after {} heal rounds (max_clients {} connected {})", j, self.tokens[s.tid].id, total_rounds, self.max_clients_cur, self.server.connected_clients()),
                );
            } else {
                obs.count_by("epilogue.handshake_rounds", connected_round[j].unwrap());
                if self.tokens[self.slots[j].tid].dead_leading > 0 {
                    obs.count("probe.failover_to_later_address");
                }
            }
        }
        // every session alive on both sides carries one payload each way (completeness oracles fire inside delivery)
        for j in 0..ns {
            let both = self.slots[j].client.as_ref().map(|c| c.is_connected()).unwrap_or(false) && self.sessions.values().any(|s| s.slot == Some(j) && s.epoch == self.slots[j].epoch);
            if both {
                self.apply_op(&Op::new(K_GENPAYLOAD, j as u64, 0, 33, 0), obs);
                self.apply_op(&Op::new(K_GENPAYLOAD, j as u64, 1, 34, 0), obs);
            }
        }
        for j in 0..ns {
            self.apply_op(&Op::new(K_DELIVERALL, j as u64, 0, 0, 0), obs);
            self.apply_op(&Op::new(K_DELIVERALL, j as u64, 1, 0, 0), obs);
        }
    }
}
