//! Engine B: datagram ledger, delivery to the real endpoints, session model and oracles.
use super::*;
use renetcode::verif::Packet;
use renetcode::ServerResult;

pub enum Res {
    None,
    Send { addr: SocketAddr, bytes: Vec<u8> },
    Payload { id: u64, bytes: Vec<u8> },
    Connected { id: u64, addr: SocketAddr, user_data: Box<[u8; 256]>, bytes: Vec<u8> },
    Disconnected { id: u64, addr: SocketAddr, bytes: Option<Vec<u8>> },
}

pub fn own(r: ServerResult) -> Res {
    match r {
        ServerResult::None => Res::None,
        ServerResult::PacketToSend { addr, payload } => Res::Send { addr, bytes: payload.to_vec() },
        ServerResult::Payload { client_id, payload } => Res::Payload { id: client_id, bytes: payload.to_vec() },
        ServerResult::ClientConnected { client_id, addr, user_data, payload } => Res::Connected { id: client_id, addr, user_data, bytes: payload.to_vec() },
        ServerResult::ClientDisconnected { client_id, addr, payload } => Res::Disconnected { id: client_id, addr, bytes: payload.map(|p| p.to_vec()) },
    }
}

pub fn parse_prefix(b: &[u8]) -> (u8, u64, usize) {
    if b.is_empty() {
        return (0xFF, 0, 0);
    }
    let t = b[0] & 0xF;
    let n = (b[0] >> 4) as usize;
    if t == T_REQUEST {
        return (t, 0, 1);
    }
    let mut s = [0u8; 8];
    if n <= 8 && b.len() > n {
        s[..n].copy_from_slice(&b[1..1 + n]);
    }
    (t, u64::from_le_bytes(s), 1 + n)
}

/// Kind of the datagram a server result sends back (for discriminators).
fn parse_prefix_name(res: &Res) -> &'static str {
    match res {
        Res::Send { bytes, .. } => tname(parse_prefix(bytes).0),
        Res::Connected { .. } => "KeepAlive",
        Res::Disconnected { .. } => "Disconnect",
        _ => "none",
    }
}

pub fn tname(t: u8) -> &'static str {
    match t {
        T_REQUEST => "Request",
        T_DENIED => "Denied",
        T_CHALLENGE => "Challenge",
        T_RESPONSE => "Response",
        T_KEEPALIVE => "KeepAlive",
        T_PAYLOAD => "Payload",
        T_DISCONNECT => "Disconnect",
        _ => "Unknown",
    }
}

#[derive(Clone, PartialEq, Eq, Debug)]
pub struct ServerSnap {
    pub clients: Vec<(u64, Option<SocketAddr>, Option<u64>, Option<u128>)>, // id, addr, user-data hash, ms since last received
    pub connected: usize,
    pub pending: Vec<(SocketAddr, u64)>, // half-open entries: address, client id
}

#[derive(Clone, PartialEq, Eq, Debug)]
pub struct ClientSnap {
    pub connected: bool,
    pub connecting: bool,
    pub reason: Option<renetcode::DisconnectReason>,
    pub since_ms: u128,
}

impl WorldB {
    pub fn server_snap(&self) -> ServerSnap {
        let mut ids = self.server.clients_id();
        ids.sort();
        ServerSnap {
            clients: ids
                .iter()
                .map(|id| {
                    (
                        *id,
                        self.server.client_addr(*id),
                        self.server.user_data(*id).map(|u| crate::prng::mix(&u.iter().map(|b| *b as u64).collect::<Vec<_>>())),
                        self.server.time_since_last_received_packet(*id).map(|d| d.as_millis()),
                    )
                })
                .collect(),
            connected: self.server.connected_clients(),
            pending: {
                let mut p = self.server.verif_pending();
                p.sort();
                p
            },
        }
    }

    pub fn client_snap(&self, slot: usize) -> Option<ClientSnap> {
        self.slots[slot].client.as_ref().map(|c| ClientSnap {
            connected: c.is_connected(),
            connecting: c.is_connecting(),
            reason: c.disconnect_reason(),
            since_ms: c.time_since_last_received_packet().as_millis(),
        })
    }

    /// Records a datagram produced by an endpoint (or the adversary) and puts it on the wire.
    #[allow(clippy::too_many_arguments)]
    pub fn emit(&mut self, bytes: Vec<u8>, src: SocketAddr, dst: SocketAddr, producer: Producer, tid: Option<usize>, payload: Option<usize>, obs: &mut Obs) -> usize {
        let (ptype, seq, _) = parse_prefix(&bytes);
        obs.log.bytes(&bytes);
        let honest = !matches!(producer, Producer::Adversary);
        let mut sv_attempt = 0;
        if honest {
            obs.count("oracle.C13.netcode_size");
            if bytes.len() > 1400 {
                obs.violate("C13", "netcode-datagram-too-long", tname(ptype), format!("{} bytes", bytes.len()));
            }
            obs.count(&format!("emit.{}", tname(ptype)));
            // C17 oracle 1: (key, nonce) never seals two different datagrams within one attempt + session
            if ptype != T_REQUEST {
                if let Some(t) = tid {
                    let (dir, scope) = match producer {
                        Producer::Client { epoch, .. } => (0u8, epoch),
                        Producer::Server { .. } => {
                            sv_attempt = self.tokens[t].sv_attempt;
                            (1u8, self.tokens[t].sv_attempt)
                        }
                        Producer::Adversary => (2, 0),
                    };
                    obs.count("oracle.C17.nonce_unique");
                    let h = crate::prng::mix(&bytes.iter().map(|b| *b as u64).collect::<Vec<_>>());
                    // the key is a function of (token, direction); scope separates attempts
                    let key = (t, dir, scope, seq);
                    if let Some(prev) = self.nonce_table.get(&key) {
                        if *prev != h {
                            obs.violate(
                                "C17",
                                "nonce-reused-under-one-key",
                                &format!("{}-{}", if dir == 0 { "client" } else { "server" }, tname(ptype)),
                                format!("token {} dir {} sequence {} sealed two different datagrams in one attempt/session", t, dir, seq),
                            );
                        }
                    } else {
                        self.nonce_table.insert(key, h);
                    }
                    // C17 oracle 1b: the keystream itself. Where the plaintext is known (payloads; a client's keep-alive is eight
                    // zero bytes) ciphertext xor plaintext gives the first keystream bytes, a function of key and nonce alone:
                    // two different packet numbers that share them were sealed with one nonce, however the header numbers them
                    let n = (bytes[0] >> 4) as usize;
                    let known: Option<[u8; 8]> = match (ptype, payload) {
                        (T_PAYLOAD, Some(pix)) if self.payloads[pix].bytes.len() >= 8 => self.payloads[pix].bytes[..8].try_into().ok(),
                        (T_KEEPALIVE, _) if dir == 0 => Some([0u8; 8]),
                        _ => None,
                    };
                    if let (Some(pt), true) = (known, bytes.len() >= 1 + n + 8 + 16 && dir < 2) {
                        obs.count("oracle.C17.keystream_unique");
                        let mut ks = [0u8; 8];
                        for k in 0..8 {
                            ks[k] = bytes[1 + n + k] ^ pt[k];
                        }
                        match self.ks_table.get(&(t, dir, scope, ks)) {
                            Some(prev) if *prev != seq => {
                                obs.violate(
                                    "C17",
                                    "keystream-reused-under-one-key",
                                    &format!("{}-{}", if dir == 0 { "client" } else { "server" }, tname(ptype)),
                                    format!("token {} dir {}: packet numbers {} and {} were sealed with the same keystream", t, dir, prev, seq),
                                );
                            }
                            Some(_) => {}
                            None => {
                                self.ks_table.insert((t, dir, scope, ks), seq);
                            }
                        }
                    }
                    // C16 monitor: decode with the known key, re-encode, compare
                    self.roundtrip_monitor(&bytes, t, dir == 1, obs);
                }
            } else if let Some(t) = tid {
                self.roundtrip_monitor(&bytes, t, false, obs);
            }
        }
        let to_slot = self.slot_of_addr(dst);
        let rec = DRec {
            bytes,
            src,
            dst,
            producer,
            ptype,
            seq,
            tid,
            payload,
            arrivals: 0,
            certainly_bogus: false,
            replayed: false,
            challenge_for: None,
            sv_attempt,
            to_slot,
            to_epoch: to_slot.map(|j| self.slots[j].epoch).unwrap_or(0),
            accepted_in: None,
            sealed_c2s: !matches!(producer, Producer::Server { .. }),
        };
        self.ledger.push(rec);
        let ix = self.ledger.len() - 1;
        // routing: honest datagrams enter the pool of the link they belong to
        if honest {
            if self.is_server_addr(dst) {
                if let Some(j) = self.slot_of_addr(src) {
                    self.slots[j].c2s.push(ix);
                }
            } else if let Some(j) = to_slot {
                self.slots[j].s2c.push(ix);
            } else {
                obs.count("net.sent_to_dead_address");
            }
        }
        ix
    }

    fn roundtrip_monitor(&mut self, bytes: &[u8], tid: usize, from_server: bool, obs: &mut Obs) {
        obs.count("oracle.C16.netcode_roundtrip");
        let t = &self.tokens[tid];
        let key = if from_server { t.token.server_to_client_key } else { t.token.client_to_server_key };
        let mut buf = bytes.to_vec();
        let protocol = t.token.protocol_id;
        match Packet::decode(&mut buf, protocol, Some(&key), None) {
            Ok((seq, pkt)) => {
                let mut out = [0u8; 1500];
                match pkt.encode(&mut out, protocol, Some((seq, &key))) {
                    Ok(n) => {
                        if &out[..n] != bytes {
                            obs.violate("C16", "netcode-reencode-differs", tname(bytes[0] & 0xF), format!("len {} vs {}", n, bytes.len()));
                        }
                    }
                    Err(e) => obs.violate("C16", "netcode-reencode-fails", tname(bytes[0] & 0xF), format!("{}", e)),
                }
            }
            Err(e) => obs.violate("C16", "own-datagram-undecodable", tname(bytes[0] & 0xF), format!("{}", e)),
        }
    }

    /// Table invariants of the connection table (C10), evaluated after every op.
    pub fn check_table(&mut self, obs: &mut Obs) {
        obs.count("oracle.C10.table");
        let pending: Vec<SocketAddr> = self.server.verif_pending().iter().map(|(a, _)| *a).collect();
        self.pend_model.retain(|a, _| pending.contains(a));
        // an address is half-open or connected, never both: promotion consumes the half-open entry
        for a in &pending {
            if self.sessions.values().any(|s| s.addr == *a) && self.server.clients_id().iter().any(|id| self.server.client_addr(*id) == Some(*a)) {
                obs.violate("C10", "half-open-entry-survives-its-promotion", "pending", format!("address {} is connected and half-open at once", a));
            }
        }
        let ids = self.server.clients_id();
        let mut s = ids.clone();
        s.sort();
        s.dedup();
        if s.len() != ids.len() {
            obs.violate("C10", "duplicate-client-id", "clients_id", format!("{:?}", ids));
        }
        let mut addrs: Vec<SocketAddr> = Vec::new();
        for id in &s {
            if let Some(a) = self.server.client_addr(*id) {
                addrs.push(a);
            }
        }
        let n = addrs.len();
        addrs.sort();
        addrs.dedup();
        if addrs.len() != n {
            obs.violate("C10", "duplicate-client-address", "client_addr", format!("{:?}", ids));
        }
        if !self.max_ever_lowered && self.server.connected_clients() > self.max_clients_cur {
            obs.violate("C10", "more-clients-than-max", "connected_clients", format!("{} > {}", self.server.connected_clients(), self.max_clients_cur));
        }
        // the table and the event stream agree; lookups refer to the authenticated session
        let model_ids: Vec<u64> = self.sessions.keys().copied().collect();
        if s != model_ids {
            obs.violate("C10", "table-differs-from-event-stream", "clients_id", format!("table {:?} events {:?}", s, model_ids));
        }
        for (id, sess) in &self.sessions {
            if let Some(a) = self.server.client_addr(*id) {
                if a != sess.addr {
                    obs.violate("C10", "lookup-refers-to-other-session", "client_addr", format!("id {} addr {} session addr {}", id, a, sess.addr));
                }
            }
            if let Some(u) = self.server.user_data(*id) {
                if u != self.tokens[sess.tid].user_data {
                    obs.violate("C10", "lookup-refers-to-other-session", "user_data", format!("id {}", id));
                }
            }
            if !self.server.is_client_connected(*id) {
                obs.violate("C10", "lookup-refers-to-other-session", "is_client_connected", format!("id {}", id));
            }
        }
    }

    fn find_session_by_addr(&self, a: SocketAddr) -> Option<u64> {
        self.sessions.values().find(|s| s.addr == a).map(|s| s.client_id)
    }

    /// Hands datagram `ix` to the server as coming from `src`. `via_adversary`: injected copy (never counts as arrival of traffic).
    pub fn deliver_to_server(&mut self, ix: usize, src: SocketAddr, via_adversary: bool, obs: &mut Obs) {
        let mut buf = self.ledger[ix].bytes.clone();
        let in_len = buf.len();
        let ptype = self.ledger[ix].ptype;
        let seq = self.ledger[ix].seq;
        let bogus = self.ledger[ix].certainly_bogus;
        let producer = self.ledger[ix].producer;
        let rec_tid = self.ledger[ix].tid;
        let true_src = match producer {
            Producer::Client { slot, .. } => self.slots[slot].addr == src && self.ledger[ix].src == src,
            _ => false,
        };
        let sess_id = self.find_session_by_addr(src);
        // ---- classification by the model, before the call ----
        let mut authentic_first = false;
        let mut handshake_ok = false;
        // session traffic is authentic for the session that holds its keys, whoever carries it to that session's address
        // (a relayed handshake can have bound the session to another address than the client's own)
        if !bogus {
            if let (Some(id), Producer::Client { .. }) = (sess_id, producer) {
                // a session is identified by its keys: traffic of any client object holding the session's token, from its address
                let s = &self.sessions[&id];
                if Some(s.tid) == rec_tid && matches!(ptype, T_KEEPALIVE | T_PAYLOAD | T_DISCONNECT) {
                    let in_window = !s.rx_seen.contains(&seq) && s.rx_highest.map(|h| seq.checked_add(256).map(|x| x > h).unwrap_or(true)).unwrap_or(true);
                    // accepted before in another session made with the same (reused) token: a cross-session replay
                    let other_session = self.ledger[ix].accepted_in.map(|n| n != s.sess_no).unwrap_or(false);
                    authentic_first = in_window && !other_session;
                }
            }
        }
        // a connect token is not bound to an address until it is first presented, so whoever relays genuine handshake
        // packets first (from whatever address) addresses a legitimate handshake; C05 judges the resulting connection
        if !bogus && sess_id.is_none() && matches!(ptype, T_REQUEST | T_RESPONSE) && matches!(producer, Producer::Client { .. }) {
            handshake_ok = true;
        }
        // a response addresses the half-open entry of its source address; without one (never requested, already promoted
        // to a session that has ended, expired) it addresses nothing
        if ptype == T_RESPONSE && sess_id.is_none() && !self.pend_model.contains_key(&src) {
            handshake_ok = false;
        }
        // adversary-made but cryptographically valid material (its own tokens) is handled as handshake/session traffic of that token
        if let Producer::Adversary = producer {
            if !bogus && matches!(ptype, T_REQUEST | T_RESPONSE) && sess_id.is_none() {
                handshake_ok = true;
            }
            if !bogus && matches!(ptype, T_KEEPALIVE | T_PAYLOAD | T_DISCONNECT) {
                if let Some(id) = sess_id {
                    // sealed under the session's own keys by their legitimate owner: treated as that client's traffic, model tainted
                    if Some(self.sessions[&id].tid) == rec_tid && self.ledger[ix].sealed_c2s {
                        authentic_first = true;
                        self.sessions.get_mut(&id).unwrap().rx_taint = true;
                    }
                }
            }
        }
        if sess_id.is_none() && !bogus && self.ledger[ix].sealed_c2s && matches!(ptype, T_KEEPALIVE | T_PAYLOAD | T_DISCONNECT) {
            if let Some(p) = self.pend_model.get_mut(&src) {
                if Some(p.0) == rec_tid {
                    let in_window = !p.1.contains(&seq) && p.2.map(|h| seq.checked_add(256).map(|x| x > h).unwrap_or(true)).unwrap_or(true);
                    if in_window {
                        p.1.insert(seq);
                        p.2 = Some(p.2.map(|h| h.max(seq)).unwrap_or(seq));
                        obs.count("probe.session_packet_at_half_open_address_advances_window");
                    }
                }
            }
        }
        // ... but once a challenge went out for a token it is bound to that address: the same request from anywhere else
        // addresses nothing (no reply, no change to any table)
        if ptype == T_REQUEST && !bogus && rec_tid.and_then(|t| self.tokens[t].first_addr).map(|a| a != src).unwrap_or(false) {
            handshake_ok = false;
            obs.count("probe.request_with_token_bound_to_another_address");
        }
        let expect_inert = !(authentic_first || handshake_ok);
        let snap_before = self.server_snap();
        let connected_addr = sess_id.is_some();
        let valid_request_model = ptype == T_REQUEST && !bogus && rec_tid.map(|t| self.token_valid_now(t)).unwrap_or(false);
        // a valid response: sealed under the keys of the half-open entry of its source address and echoing a challenge that
        // this server incarnation issued for that entry's client id
        let valid_response_model = ptype == T_RESPONSE
            && !bogus
            && self.pend_model.get(&src).map(|p| Some(p.0) == rec_tid).unwrap_or(false)
            && rec_tid.map(|t| self.ledger[ix].challenge_for == Some((self.tokens[t].id, self.incarnation))).unwrap_or(false)
            // (half-open entries are dropped by the first update after their token's expiry second: nothing is left to answer for)
            && rec_tid.map(|t| self.sv_ms / 1000 <= self.tokens[t].expire_ts + 1).unwrap_or(true);
        if ptype == T_REQUEST && !bogus {
            if let Some(t) = rec_tid {
                if self.sv_ms / 1000 < self.tokens[t].expire_ts {
                    let now = self.sv_ms;
                    self.tokens[t].presented.push((src, now));
                    let inc = self.incarnation;
                    self.tokens[t].inc_presented.push((src, inc));
                }
            }
        }
        obs.count("op.deliver_to_server");
        obs.count("oracle.C07.returns");
        let res = own(self.server.process_packet(src, &mut buf));
        self.ledger[ix].arrivals += 1;
        let snap_after = self.server_snap();

        // ---- C07: a datagram that is not authentic for the session it addresses changes nothing observable ----
        // (not judged for datagrams sealed under the keys of a session whose keys the adversary holds too: what that session's
        // window has seen cannot be modelled once the key holder itself injects traffic)
        let unmodellable = !bogus && sess_id.map(|id| self.sessions[&id].rx_taint && Some(self.sessions[&id].tid) == rec_tid).unwrap_or(false);
        if expect_inert && unmodellable {
            obs.count("oracle.C07.skipped_adversary_holds_session_keys");
        } else if expect_inert {
            obs.count("oracle.C07.inert");
            let kind = match &res {
                Res::Payload { .. } => Some("payload-surfaced"),
                Res::Connected { .. } => Some("client-connected"),
                Res::Disconnected { .. } => Some("client-disconnected"),
                _ => None,
            };
            // (only session datagrams sealed for the server can be replays of an earlier session; a server-to-client datagram
            // thrown back at the server records client epochs in `accepted_in` and opens under no key the server holds)
            let reused = match sess_id {
                Some(id) => {
                    self.ledger[ix].sealed_c2s
                        && matches!(producer, Producer::Client { .. })
                        && matches!(ptype, T_KEEPALIVE | T_PAYLOAD | T_DISCONNECT)
                        && Some(self.sessions[&id].tid) == rec_tid
                        && self.ledger[ix].accepted_in.map(|n| n != self.sessions[&id].sess_no).unwrap_or(false)
                }
                None => false,
            };
            let why = if bogus {
                "bogus"
            } else if reused {
                "earlier-session-of-reused-token"
            } else if via_adversary || self.ledger[ix].replayed {
                "replayed"
            } else {
                "stale-or-foreign"
            };
            let reused_in_window = reused
                && sess_id
                    .and_then(|id| self.sessions.get(&id))
                    .map(|sx| !sx.rx_seen.contains(&seq) && sx.rx_highest.map(|h| seq.checked_add(256).map(|x| x > h).unwrap_or(true)).unwrap_or(true))
                    .unwrap_or(false);
            if reused && (kind.is_some() || snap_before != snap_after || reused_in_window) {
                // the known cross-session replay is accepted (visibly or, for a keep-alive without a running timeout, silently):
                // the implementation's window has moved, the model follows and stops judging completeness on this session
                if let Some(id) = sess_id {
                    if let Some(sx) = self.sessions.get_mut(&id) {
                        sx.rx_seen.insert(seq);
                        sx.rx_highest = Some(sx.rx_highest.map(|h| h.max(seq)).unwrap_or(seq));
                        sx.rx_taint = true;
                        // (and its receive timer has been refreshed: the "silent for longer than the timeout" clause counts from here)
                        sx.lenient_ms = self.sv_ms;
                    }
                }
            }
            if let Some(k) = kind {
                let p = if ptype == T_PAYLOAD && !bogus { "C04" } else { "C07" };
                obs.violate(p, "unauthentic-datagram-had-effect", &format!("{}/{}/{}", why, k, tname(ptype)), format!("datagram {} from {} ({:?})", ix, src, producer));
                if p != "C04" && k == "payload-surfaced" {
                    // whatever else it is, a payload that surfaces from a datagram that cannot be authentic is a C04 matter too
                    obs.violate("C04", "unauthentic-datagram-had-effect", &format!("{}/{}/{}", why, k, tname(ptype)), format!("datagram {} from {} ({:?})", ix, src, producer));
                }
            }
            if snap_before != snap_after && kind.is_none() {
                let pending_changed = snap_before.pending != snap_after.pending;
                let refreshed = !pending_changed
                    && snap_before.clients.len() == snap_after.clients.len()
                    && snap_before.clients.iter().zip(snap_after.clients.iter()).all(|(a, b)| a.0 == b.0 && a.1 == b.1 && a.2 == b.2);
                obs.violate(
                    "C07",
                    if refreshed { "unauthentic-datagram-refreshed-timeout" } else { "unauthentic-datagram-changed-table" },
                    &format!("{}/{}/{}", why, tname(ptype), if pending_changed { "half-open-table" } else if connected_addr { "connected-address" } else { "other-address" }),
                    format!("datagram {} from {}", ix, src),
                );
                if refreshed {
                    obs.violate("C18", "unauthentic-datagram-postpones-timeout", &format!("{}/{}", why, tname(ptype)), format!("datagram {} from {}", ix, src));
                }
            }
        }

        // ---- C07: genuine traffic is still accepted after unauthentic datagrams. A request with a valid token that this server
        // incarnation has only ever seen from this address, for an identity and an address without session, is answered (with a
        // challenge, or with a refusal when the server is full) unless an unauthentic copy damaged something on the way ----
        if valid_request_model && sess_id.is_none() && !self.flooded {
            if let Some(t) = rec_tid {
                let inc = self.incarnation;
                let only_here = self.tokens[t].inc_presented.iter().filter(|(_, i)| *i == inc).all(|(a, _)| *a == src)
                    && self.tokens[t].first_addr.map(|a| a == src).unwrap_or(true);
                let id_free = !self.sessions.contains_key(&self.tokens[t].id);
                if only_here && id_free {
                    obs.count("oracle.C07.genuine_request_answered");
                    if !matches!(res, Res::Send { .. }) {
                        let squatted = self.ledger.iter().any(|r| r.certainly_bogus && r.arrivals > 0 && r.tid == Some(t) && r.ptype == T_REQUEST);
                        if squatted {
                            obs.violate(
                                "C07",
                                "unauthentic-datagram-had-effect",
                                "bogus/genuine-request-ignored-afterwards/server",
                                format!("request {} with token {} from {} got no reply; a damaged copy of that token's request had been handed to the server before", ix, t, src),
                            );
                        } else {
                            obs.count("probe.valid_request_not_answered");
                        }
                    }
                }
            }
        }

        // ---- C19: no amplification towards addresses that have not proven themselves ----
        if !connected_addr {
            obs.count("oracle.C19.reply");
            let reply: Option<(&SocketAddr, usize)> = match &res {
                Res::Send { addr, bytes } => Some((addr, bytes.len())),
                Res::Connected { addr, bytes, .. } => Some((addr, bytes.len())),
                Res::Disconnected { addr, bytes: Some(b), .. } => Some((addr, b.len())),
                _ => None,
            };
            if let Some((addr, len)) = reply {
                if *addr != src {
                    obs.violate("C19", "reply-to-other-address", tname(ptype), format!("input from {} reply to {}", src, addr));
                }
                if len >= in_len {
                    obs.violate("C19", "reply-not-smaller-than-request", tname(ptype), format!("input {} bytes reply {} bytes", in_len, len));
                }
                // a connect token is valid from one address only: once a challenge went out for it, the token is bound to that
                // address and the same token from anywhere else carries no valid token any more
                let bound_elsewhere = ptype == T_REQUEST && !bogus && rec_tid.and_then(|t| self.tokens[t].first_addr).map(|a| a != src).unwrap_or(false);
                if bound_elsewhere {
                    obs.violate(
                        "C19",
                        "reply-to-token-bound-to-another-address",
                        parse_prefix_name(&res),
                        format!("token {:?} was challenged at {:?}, request from {} got a {} byte reply", rec_tid, rec_tid.and_then(|t| self.tokens[t].first_addr), src, len),
                    );
                }
                if !(valid_request_model || valid_response_model) {
                    obs.violate(
                        "C19",
                        "reply-to-invalid-datagram",
                        &format!("{}/{}", tname(ptype), if bogus { "bogus" } else if ptype == T_RESPONSE { "invalid-response" } else { "invalid-token" }),
                        format!("input {} bytes from {} got a {} byte reply", in_len, src, len),
                    );
                    if bogus && matches!(self.ledger[ix].producer, Producer::Adversary) && self.ledger[ix].tid.is_some() {
                        // C17: a modified copy of sealed material (token, datagram) was answered, i.e. taken for content
                        obs.violate("C17", "tampered-datagram-accepted", &format!("answered/{}", tname(ptype)), format!("input {} bytes from {} got a {} byte reply", in_len, src, len));
                    }
                }
            }
        }

        // ---- lenient arrival clock (C18b): any non-bogus copy moved by the network from the true source ----
        if let Some(id) = sess_id {
            if !bogus && true_src && !via_adversary {
                if let Some(s) = self.sessions.get_mut(&id) {
                    s.lenient_ms = self.sv_ms;
                }
            }
        }
        // ---- accepted session traffic: window model, strict clock, completeness (C04) ----
        if authentic_first {
            if let Some(id) = sess_id {
                let now = self.sv_ms;
                let s = self.sessions.get_mut(&id).unwrap();
                self.ledger[ix].accepted_in = Some(s.sess_no);
                s.rx_seen.insert(seq);
                s.rx_highest = Some(s.rx_highest.map(|h| h.max(seq)).unwrap_or(seq));
                s.strict_ms = now;
                s.lenient_ms = now;
                let taint = s.rx_taint;
                if ptype == T_PAYLOAD && !taint {
                    obs.count("oracle.C04.completeness");
                    if !matches!(res, Res::Payload { .. }) {
                        obs.violate("C04", "genuine-in-window-payload-not-surfaced", "server", format!("datagram {} seq {} from client {}", ix, seq, id));
                        // C16: a datagram at the top of the size range (a payload within the documented limit plus its header) is a
                        // value the library built; its own receive path decodes it
                        if self.ledger[ix].bytes.len() > 1300 {
                            obs.violate("C16", "library-built-datagram-refused-by-receive-path", "server/near-maximum-payload", format!("{} bytes, seq {}", self.ledger[ix].bytes.len(), seq));
                        }
                        // C07: if an unauthentic datagram claiming this sequence (modulo the window size) reached this address
                        // before, it is what made the receiver refuse the genuine one
                        let dst = self.ledger[ix].dst;
                        if self.ledger.iter().any(|r| r.certainly_bogus && r.arrivals > 0 && r.src == src && r.dst == dst && matches!(r.ptype, T_KEEPALIVE | T_PAYLOAD | T_DISCONNECT) && r.seq % 256 == seq % 256) {
                            obs.violate("C07", "unauthentic-datagram-had-effect", "bogus/shadowed-genuine-datagram/server", format!("datagram {} seq {} from client {}", ix, seq, id));
                        }
                    }
                }
                if ptype == T_DISCONNECT && !taint && !matches!(res, Res::Disconnected { .. }) {
                    obs.violate("C18", "genuine-disconnect-ignored", "server", format!("datagram {} from client {}", ix, id));
                }
            }
        }
        if std::env::var("VERIF_DEBUG2").is_ok() {
            let kind = match &res {
                Res::None => "None",
                Res::Send { .. } => "Send",
                Res::Payload { .. } => "Payload",
                Res::Connected { .. } => "Connected",
                Res::Disconnected { .. } => "Disconnected",
            };
            eprintln!(
                "  to-server dgram {} {} seq {} tid {:?} producer {:?} src {} sess {:?} sess_tid {:?} seen {:?} high {:?} auth_first {} -> {} | pend_model {:?}",
                ix, tname(ptype), seq, rec_tid, producer, src, sess_id,
                sess_id.and_then(|id| self.sessions.get(&id)).map(|s| s.tid),
                sess_id.and_then(|id| self.sessions.get(&id)).map(|s| s.rx_seen.iter().copied().collect::<Vec<_>>()),
                sess_id.and_then(|id| self.sessions.get(&id)).and_then(|s| s.rx_highest),
                authentic_first, kind,
                self.pend_model.iter().map(|(a, p)| (*a, p.0, p.1.iter().copied().collect::<Vec<_>>())).collect::<Vec<_>>()
            );
        }
        let trigger = Some(ix);
        self.handle_res(res, src, trigger, obs);
    }

    /// Applies a server result to the model: events (C10), connections (C05), payloads (C04), outgoing datagrams.
    pub fn handle_res(&mut self, res: Res, src: SocketAddr, trigger: Option<usize>, obs: &mut Obs) {
        let inc = self.incarnation;
        match res {
            Res::None => {}
            Res::Send { addr, bytes } => {
                let (pt, _, _) = parse_prefix(&bytes);
                // a reply to a request is sealed under the keys of the token that request carried
                let tid = trigger.and_then(|t| self.ledger[t].tid).or_else(|| self.find_session_by_addr(addr).map(|id| self.sessions[&id].tid));
                let from = self.public[0];
                let ix = self.emit(bytes, from, addr, Producer::Server { incarnation: inc }, tid, None, obs);
                if pt == T_CHALLENGE {
                    if let Some(t) = tid {
                        let id = self.tokens[t].id;
                        self.ledger[ix].challenge_for = Some((id, inc));
                        // harvest (token_sequence, token_data) for the adversary
                        let key = self.tokens[t].token.server_to_client_key;
                        let mut b = self.ledger[ix].bytes.clone();
                        if let Ok((_, Packet::Challenge { token_sequence, token_data })) = Packet::decode(&mut b, self.tokens[t].token.protocol_id, Some(&key), None) {
                            // C17: the challenge token inside is sealed under the server's challenge key with nonce = token_sequence;
                            // one server incarnation never seals two different challenge tokens under the same sequence
                            obs.count("oracle.C17.challenge_token_nonce");
                            if let Some(prev) = self.challenges_seen.iter().find(|c| c.3 == inc && c.0 == token_sequence && c.1[..] != token_data[..]) {
                                obs.violate(
                                    "C17",
                                    "nonce-reused-under-one-key",
                                    "challenge-token/challenge-key",
                                    format!("challenge token sequence {} sealed for client id {} and again, with other content, for client id {}", token_sequence, prev.2, id),
                                );
                            }
                            self.challenges_seen.push((token_sequence, token_data.to_vec(), id, inc));
                        }
                        if self.tokens[t].first_addr.is_none() {
                            self.tokens[t].first_addr = Some(addr);
                        }
                        // half-open entry for this address: kept for the same token, replaced (fresh window) for another one
                        let keep = self.pend_model.get(&addr).map(|p| p.0 == t).unwrap_or(false);
                        if !keep {
                            self.pend_model.insert(addr, (t, BTreeSet::new(), None));
                        }
                        self.hs_stats[1] += 1;
                    }
                } else if pt == T_DENIED {
                    obs.count("probe.denied_sent");
                    // a refusal for lack of room is decided after the token was entered into the table: the token is bound to
                    // the address that presented it although no challenge went out
                    if let Some(t) = tid {
                        if self.tokens[t].first_addr.is_none() {
                            self.tokens[t].first_addr = Some(addr);
                        }
                    }
                }
            }
            Res::Payload { id, bytes } => {
                obs.count("oracle.C04.surfaced");
                // which GenPayload call is this? the delivered datagram knows; copies made by the adversary are matched by content
                let by_dgram = trigger.and_then(|t| self.ledger[t].payload).filter(|pi| !self.payloads[*pi].from_server && self.payloads[*pi].bytes == bytes);
                let found = by_dgram
                    .or_else(|| self.payloads.iter().position(|p| !p.from_server && p.bytes == bytes && p.surfaced == 0))
                    .or_else(|| self.payloads.iter().position(|p| !p.from_server && p.bytes == bytes));
                match found {
                    None => obs.violate("C04", "surfaced-payload-never-generated", "server", format!("{} bytes attributed to client {}", bytes.len(), id)),
                    Some(pi) => {
                        self.payloads[pi].surfaced += 1;
                        let cur_sess = self.sessions.get(&id).map(|s| s.sess_no);
                        if self.payloads[pi].first_surfaced_in.is_none() {
                            self.payloads[pi].first_surfaced_in = cur_sess;
                        }
                        let p = &self.payloads[pi];
                        if p.client_id != id {
                            obs.violate("C04", "payload-attributed-to-wrong-client", "server", format!("generated by client {} surfaced as {}", p.client_id, id));
                        }
                        if p.surfaced > 1 {
                            let cross = p.first_surfaced_in != cur_sess;
                            obs.violate(
                                "C04",
                                "payload-surfaced-more-than-once",
                                if cross { "earlier-session-of-reused-token/server" } else { "same-session/server" },
                                format!("payload {} surfaced {} times", pi, p.surfaced),
                            );
                        }
                        if let Some(s) = self.sessions.get(&id) {
                            if s.tid != p.tid {
                                obs.violate("C04", "payload-sealed-under-other-session-keys", "server", format!("payload {}", pi));
                            }
                        }
                    }
                }
            }
            Res::Connected { id, addr, user_data, bytes } => {
                self.on_connected(id, addr, &user_data, src, trigger, obs);
                let tid = self.sessions.get(&id).map(|s| s.tid);
                let from = self.public[0];
                self.emit(bytes, from, addr, Producer::Server { incarnation: inc }, tid, None, obs);
            }
            Res::Disconnected { id, addr, bytes } => {
                obs.count("oracle.C10.events");
                match self.ev_connected.get(&id) {
                    Some((a, true)) => {
                        if *a != addr {
                            obs.violate("C10", "disconnect-event-names-other-address", "events", format!("id {} connected from {} disconnected {}", id, a, addr));
                        }
                    }
                    _ => obs.violate("C10", "disconnect-event-without-connect", "events", format!("id {}", id)),
                }
                self.ev_connected.insert(id, (addr, false));
                let tid = self.sessions.get(&id).map(|s| s.tid);
                if let Some(b) = bytes {
                    let from = self.public[0];
                    self.emit(b, from, addr, Producer::Server { incarnation: inc }, tid, None, obs);
                }
                if let Some(s) = self.sessions.remove(&id) {
                    self.tokens[s.tid].sv_attempt += 1;
                }
                obs.count("probe.server_side_disconnect");
            }
        }
    }

    #[allow(clippy::too_many_arguments)]
    fn on_connected(&mut self, id: u64, addr: SocketAddr, user_data: &[u8; 256], src: SocketAddr, trigger: Option<usize>, obs: &mut Obs) {
        obs.count("oracle.C05.connect");
        obs.count("oracle.C10.events");
        self.hs_stats[3] += 1;
        if let Some((_, true)) = self.ev_connected.get(&id) {
            obs.violate("C10", "two-connect-events-without-disconnect", "events", format!("id {}", id));
        }
        self.ev_connected.insert(id, (addr, true));
        if addr != src {
            obs.violate("C05", "connected-address-is-not-the-responding-address", "addr", format!("{} vs {}", addr, src));
        }
        // the one genuine token with this id AND this user data
        // (when the application gives several tokens the same user data, the token is the one whose keys sealed the response)
        let by_trigger = trigger.and_then(|ix| self.ledger[ix].tid).filter(|&t| self.tokens[t].id == id && &self.tokens[t].user_data == user_data);
        let tid = by_trigger.or_else(|| self.tokens.iter().position(|t| t.id == id && &t.user_data == user_data));
        let mut sess_tid = tid.unwrap_or(0);
        match tid {
            None => {
                let id_known = self.tokens.iter().position(|t| t.id == id);
                if let Some(t) = id_known {
                    sess_tid = t;
                }
                obs.violate(
                    "C05",
                    "client-id-and-user-data-not-from-one-token",
                    if id_known.is_some() { "user-data-of-another-token" } else { "unknown-id" },
                    format!("id {} from {}", id, addr),
                );
            }
            Some(t) => {
                let tok = &self.tokens[t];
                if !(tok.key_ok && tok.protocol_ok) {
                    obs.violate("C17", "token-opened-under-another-key-or-protocol", if tok.key_ok { "foreign-protocol" } else { "foreign-key" }, format!("id {}", id));
                    obs.violate("C05", "connected-with-foreign-token", if tok.key_ok { "foreign-protocol" } else { "foreign-key" }, format!("id {}", id));
                }
                if !tok.lists_server {
                    obs.violate("C05", "connected-with-wrong-host-token", "host-list", format!("id {}", id));
                }
                if tok.issued_for_incarnation == self.incarnation || true {
                    let presented_here: Vec<u64> = tok.presented.iter().filter(|(a, _)| *a == addr).map(|(_, ms)| *ms).collect();
                    if presented_here.is_empty() {
                        obs.violate("C05", "token-never-presented-from-this-address", "addr", format!("id {} addr {}", id, addr));
                    } else if presented_here.iter().all(|ms| ms / 1000 >= tok.expire_ts) {
                        obs.violate("C05", "connected-with-expired-token", "expiry", format!("id {} expire {}", id, tok.expire_ts));
                    } else if by_trigger.is_some() && self.sv_ms / 1000 > tok.expire_ts + 1 {
                        // half-open entries are dropped by the first update after their token's expiry and requests are refused
                        // from the expiry second on: nothing presented in time can still be completed now
                        obs.violate("C05", "connected-with-expired-token", "half-open-entry-after-expiry", format!("id {} expire {} now {}", id, tok.expire_ts, self.sv_ms / 1000));
                    }
                    if let Some(first) = tok.first_addr {
                        if first != addr {
                            obs.violate("C05", "token-first-used-from-another-address", "binding", format!("id {} first {} now {}", id, first, addr));
                        }
                    }
                }
            }
        }
        // the triggering datagram must be a response from this address echoing a challenge issued for this id by this incarnation
        if let Some(ix) = trigger {
            let rec = &self.ledger[ix];
            if rec.ptype != T_RESPONSE {
                obs.violate("C05", "connected-without-response", tname(rec.ptype), format!("id {}", id));
            } else {
                match rec.challenge_for {
                    Some((cid, cinc)) => {
                        if cid != id {
                            obs.violate("C05", "response-echoes-challenge-of-another-client", "cross-use", format!("connected id {} challenge was for {}", id, cid));
                        }
                        if cinc != self.incarnation {
                            obs.violate("C05", "response-echoes-challenge-of-previous-server-incarnation", "restart", format!("id {}", id));
                        }
                    }
                    None => obs.violate("C05", "response-echoes-no-issued-challenge", "challenge", format!("id {}", id)),
                }
                if rec.certainly_bogus {
                    obs.violate("C05", "connected-by-tampered-response", "bogus", format!("id {}", id));
                }
            }
        }
        let (slot, epoch) = match trigger.map(|ix| self.ledger[ix].producer) {
            Some(Producer::Client { slot, epoch }) => (Some(slot), epoch),
            _ => (self.slot_of_addr(addr), self.slot_of_addr(addr).map(|j| self.slots[j].epoch).unwrap_or(0)),
        };
        self.sess_counter += 1;
        self.tokens[sess_tid].ever_connected = true;
        let now = self.sv_ms;
        let (seen0, high0) = match self.pend_model.remove(&addr) {
            Some((_, seen, high)) => (seen, high),
            None => (BTreeSet::new(), None),
        };
        self.sessions.insert(
            id,
            Sess {
                client_id: id,
                addr,
                tid: sess_tid,
                slot,
                epoch,
                sess_no: self.sess_counter,
                rx_seen: seen0,
                rx_highest: high0,
                // the adversary may have spoken with these keys already while the address was half-open
                rx_taint: self.tokens[sess_tid].adv_owned,
                strict_ms: now,
                lenient_ms: now,
                connected_ms: now,
            },
        );
    }

    /// Hands datagram `ix` to the client in `slot`.
    pub fn deliver_to_client(&mut self, ix: usize, slot: usize, via_adversary: bool, obs: &mut Obs) {
        if self.slots[slot].client.is_none() {
            obs.count("net.delivered_to_absent_client");
            return;
        }
        let mut buf = self.ledger[ix].bytes.clone();
        let ptype = self.ledger[ix].ptype;
        let seq = self.ledger[ix].seq;
        let bogus = self.ledger[ix].certainly_bogus;
        let rec_tid = self.ledger[ix].tid;
        let producer = self.ledger[ix].producer;
        // authentic for this client = sealed by the server under the keys of the token this client holds
        let genuine_for_me = !bogus && matches!(producer, Producer::Server { .. }) && rec_tid == Some(self.slots[slot].tid);
        // the adversary speaking to a client with keys that client holds can only be the holder of those keys attacking itself
        let self_inflicted = !bogus && !self.ledger[ix].sealed_c2s && matches!(producer, Producer::Adversary) && rec_tid == Some(self.slots[slot].tid) && self.tokens[self.slots[slot].tid].adv_owned;
        if self_inflicted {
            self.slots[slot].rx_taint = true;
        }
        let genuine_for_me = genuine_for_me || self_inflicted;
        // accepted before by an earlier client object holding the same (reused) token: a cross-session replay
        let earlier_session = genuine_for_me && !self_inflicted && self.ledger[ix].accepted_in.map(|e| e != self.slots[slot].epoch).unwrap_or(false);
        if earlier_session {
            obs.count("probe.datagram_of_earlier_client_object_with_same_token");
        }
        if genuine_for_me && ptype == T_DENIED && self.slots[slot].client.as_ref().map(|c| c.is_connected()).unwrap_or(false) {
            obs.count("probe.denial_of_own_token_reaches_connected_client");
        }
        let before = self.client_snap(slot).unwrap();
        let s = &self.slots[slot];
        // was it sealed for the current client object? (server attempt counter at emit vs now is not known to the client; use the token)
        let protected = matches!(ptype, T_KEEPALIVE | T_PAYLOAD | T_DISCONNECT);
        let in_window = !s.rx_seen.contains(&seq) && s.rx_highest.map(|h| seq.checked_add(256).map(|x| x > h).unwrap_or(true)).unwrap_or(true);
        let authentic_first = genuine_for_me && (!protected || in_window) && !earlier_session;
        // C04: a genuine payload arriving for the first time is lost when another, different datagram of the same sender already
        // used its sequence number in this session (the sender sealed two datagrams under one sequence)
        if genuine_for_me && !earlier_session && ptype == T_PAYLOAD && self.ledger[ix].arrivals == 0 && s.rx_seen.contains(&seq) && !s.rx_taint {
            let ep = s.epoch;
            let clash = self.ledger.iter().enumerate().any(|(j, r)| {
                j != ix
                    && r.seq == seq
                    && r.tid == rec_tid
                    && r.producer == self.ledger[ix].producer
                    && r.sv_attempt == self.ledger[ix].sv_attempt
                    && r.accepted_in == Some(ep)
                    && !r.certainly_bogus
                    && r.bytes != self.ledger[ix].bytes
            });
            if clash {
                obs.violate("C04", "genuine-payload-lost-to-sequence-clash", "client", format!("datagram {} seq {} slot {}: another datagram with this sequence was accepted before", ix, seq, slot));
            }
        }
        obs.count("op.deliver_to_client");
        obs.count("oracle.C07.returns");
        let surfaced: Option<Vec<u8>> = {
            let c = self.slots[slot].client.as_mut().unwrap();
            c.process_packet(&mut buf).map(|p| p.to_vec())
        };
        self.ledger[ix].arrivals += 1;
        let after = self.client_snap(slot).unwrap();
        if !authentic_first && self.slots[slot].rx_taint {
            // the holder of this client's keys is the adversary itself: nothing can be said about what it does to itself
            obs.count("oracle.C07.skipped_self_inflicted");
        } else if !authentic_first {
            obs.count("oracle.C07.inert");
            let why = if bogus {
                "bogus"
            } else if earlier_session {
                "earlier-session-of-reused-token"
            } else if genuine_for_me {
                "second-arrival"
            } else if via_adversary {
                "replayed-foreign"
            } else {
                "stale-or-foreign"
            };
            if surfaced.is_some() {
                obs.violate("C04", "unauthentic-datagram-had-effect", &format!("{}/payload-surfaced/client", why), format!("datagram {} to slot {}", ix, slot));
            }
            if before != after {
                let refreshed = before.connected == after.connected && before.connecting == after.connecting && before.reason == after.reason;
                obs.violate(
                    "C07",
                    if refreshed { "unauthentic-datagram-refreshed-timeout" } else { "unauthentic-datagram-changed-client-state" },
                    &format!("{}/{}/client", why, tname(ptype)),
                    format!("datagram {} to slot {}: {:?} -> {:?}", ix, slot, before, after),
                );
                if refreshed && before.connected {
                    // C18: forged or replayed packets do not postpone a timeout (client side)
                    obs.violate("C18", "unauthentic-datagram-postpones-timeout", &format!("{}/{}/client", why, tname(ptype)), format!("datagram {} to slot {}", ix, slot));
                }
            }
        } else {
            let ep = self.slots[slot].epoch;
            self.ledger[ix].accepted_in = Some(ep);
            let s = &mut self.slots[slot];
            // a first arrival counts as an arrival whoever carried it
            s.lenient_ms = s.clock_ms;
            if protected {
                s.rx_seen.insert(seq);
                s.rx_highest = Some(s.rx_highest.map(|h| h.max(seq)).unwrap_or(seq));
                if before.connected {
                    s.strict_ms = s.clock_ms;
                }
                if ptype == T_PAYLOAD && before.connected && !s.rx_taint {
                    obs.count("oracle.C04.completeness");
                    if surfaced.is_none() {
                        obs.violate("C04", "genuine-in-window-payload-not-surfaced", "client", format!("datagram {} seq {} slot {}", ix, seq, slot));
                        let my_addr = self.slots[slot].addr;
                        if self.ledger.iter().any(|r| r.certainly_bogus && r.arrivals > 0 && r.dst == my_addr && matches!(r.ptype, T_KEEPALIVE | T_PAYLOAD | T_DISCONNECT) && r.seq % 256 == seq % 256) {
                            obs.violate("C07", "unauthentic-datagram-had-effect", "bogus/shadowed-genuine-datagram/client", format!("datagram {} seq {} slot {}", ix, seq, slot));
                        }
                    }
                }
            }
            if ptype == T_CHALLENGE && before.connecting && !after.connected {
                self.hs_stats[2] += 1;
            }
        }
        if !via_adversary && !bogus && matches!(producer, Producer::Server { .. }) {
            let s = &mut self.slots[slot];
            s.lenient_ms = s.clock_ms;
        }
        let tainted_before = self.slots[slot].rx_taint;
        if earlier_session && (before != after || (protected && in_window)) {
            // ... and its receive timer has been refreshed: the silent-server clause is judged from here
            let s = &mut self.slots[slot];
            s.lenient_ms = s.clock_ms;
        }
        if earlier_session && protected && in_window {
            // the known cross-session replay is accepted by the client (visibly or silently): its window has moved, the model
            // follows and stops judging this client's receive side (judged above for this datagram itself)
            let s = &mut self.slots[slot];
            s.rx_seen.insert(seq);
            s.rx_highest = Some(s.rx_highest.map(|h| h.max(seq)).unwrap_or(seq));
            s.rx_taint = true;
        }
        if tainted_before && surfaced.is_some() {
            obs.count("oracle.C04.skipped_self_inflicted");
        } else if let Some(p) = surfaced {
            obs.count("oracle.C04.surfaced");
            let by_dgram = self.ledger[ix].payload.filter(|pi| self.payloads[*pi].from_server && self.payloads[*pi].bytes == p);
            let found = by_dgram
                .or_else(|| self.payloads.iter().position(|q| q.from_server && q.bytes == p && q.surfaced == 0 && q.slot == slot))
                .or_else(|| self.payloads.iter().position(|q| q.from_server && q.bytes == p));
            match found {
                None => obs.violate("C04", "surfaced-payload-never-generated", "client", format!("{} bytes at slot {}", p.len(), slot)),
                Some(pi) => {
                    self.payloads[pi].surfaced += 1;
                    let ep = self.slots[slot].epoch;
                    if self.payloads[pi].first_surfaced_in.is_none() {
                        self.payloads[pi].first_surfaced_in = Some(ep);
                    }
                    let q = &self.payloads[pi];
                    // (a holder of the session's own token that opened the session from somebody else's address — only an
                    // adversary-owned token is used that way — opens that session's payloads wherever they reach it: same keys)
                    if q.tid != self.slots[slot].tid || (q.slot != slot && !self.tokens[q.tid].adv_owned) {
                        obs.violate("C04", "payload-attributed-to-wrong-client", "client", format!("generated for slot {} surfaced at {}", q.slot, slot));
                    }
                    if q.surfaced > 1 {
                        let cross = q.first_surfaced_in != Some(ep);
                        obs.violate(
                            "C04",
                            "payload-surfaced-more-than-once",
                            if cross { "earlier-session-of-reused-token/client" } else { "same-session/client" },
                            format!("payload {} surfaced {} times", pi, q.surfaced),
                        );
                    }
                }
            }
        }
        self.note_client_state(slot, obs);
    }

    /// Tracks client state transitions (connected / disconnect reasons) for C18 and C12-like finality at the netcode level.
    pub fn note_client_state(&mut self, slot: usize, obs: &mut Obs) {
        let Some(snap) = self.client_snap(slot) else { return };
        let s = &mut self.slots[slot];
        if snap.connected && !s.was_connected {
            s.was_connected = true;
            s.connected_at_ms = Some(s.clock_ms);
            s.strict_ms = s.clock_ms;
            obs.count("probe.client_connected");
        }
        if let Some(r) = snap.reason {
            if s.reported_reason.is_none() {
                s.reported_reason = Some(r);
                obs.count(&format!("client_disconnect.{:?}", r));
            }
        }
    }
}
