//! Engine B: one real NetcodeServer + honest NetcodeClients + an on-path adversary, joined by a simulated
//! datagram network with source addresses. OS randomness is replaced by a seeded stream (hook H5), so keys,
//! nonces and ciphertexts are a function of the run seed.
use crate::core::{Cfg, Obs, Op, World};
use crate::prng::Rng;
use renetcode::{ClientAuthentication, ConnectToken, NetcodeClient, NetcodeServer, ServerAuthentication, ServerConfig};
use std::collections::{BTreeMap, BTreeSet, HashMap};
use std::net::{IpAddr, Ipv4Addr, Ipv6Addr, SocketAddr};
use std::time::Duration;

mod adversary;
mod apply;
mod gen;
mod oracle;

pub const OP_NAMES: &[&str] = &[
    "NewClient", "TickClient", "TickServer", "Deliver", "Drop", "DropAll", "DeliverAll", "GenPayload", "ClientDisconnect", "ServerDisconnect",
    "SetMaxClients", "Junk", "Mutate", "Replay", "ForgeRequest", "ForgeResponse", "ForgeSession", "TamperEnum", "RestartServer", "Teleport",
    "TokenSurgery", "CrashClient", "GenBurst", "CrossResponse", "StaleHandshake", "FloodThenSteal", "ForgeExpiry", "Reframe", "StaleResponse", "TagSquat",
];
pub const K_NEWCLIENT: u8 = 0;
pub const K_TICKCLIENT: u8 = 1;
pub const K_TICKSERVER: u8 = 2;
pub const K_DELIVER: u8 = 3;
pub const K_DROP: u8 = 4;
pub const K_DROPALL: u8 = 5;
pub const K_DELIVERALL: u8 = 6;
pub const K_GENPAYLOAD: u8 = 7;
pub const K_CLIENTDISC: u8 = 8;
pub const K_SERVERDISC: u8 = 9;
pub const K_SETMAX: u8 = 10;
pub const K_JUNK: u8 = 11;
pub const K_MUTATE: u8 = 12;
pub const K_REPLAY: u8 = 13;
pub const K_FORGEREQ: u8 = 14;
pub const K_FORGERESP: u8 = 15;
pub const K_FORGESESS: u8 = 16;
pub const K_TAMPER: u8 = 17;
pub const K_RESTART: u8 = 18;
pub const K_TELEPORT: u8 = 19;
pub const K_TOKENSURGERY: u8 = 20;
pub const K_CRASH: u8 = 21;
pub const K_GENBURST: u8 = 22;
pub const K_CROSSRESP: u8 = 23;
pub const K_STALEHS: u8 = 24;
pub const K_FLOODSTEAL: u8 = 25;
pub const K_FORGEEXPIRY: u8 = 26;
pub const K_REFRAME: u8 = 27;
pub const K_STALERESP: u8 = 28;
pub const K_TAGSQUAT: u8 = 29;

pub const T_REQUEST: u8 = 0;
pub const T_DENIED: u8 = 1;
pub const T_CHALLENGE: u8 = 2;
pub const T_RESPONSE: u8 = 3;
pub const T_KEEPALIVE: u8 = 4;
pub const T_PAYLOAD: u8 = 5;
pub const T_DISCONNECT: u8 = 6;

pub const T0_SECS: u64 = 1000;

/// A connect token issued by the harness (it is the token backend) and everything the model needs about it.
pub struct TokenRec {
    pub id: u64,
    pub user_data: [u8; 256],
    pub token: ConnectToken,
    pub key_ok: bool,      // sealed under this server's private key
    pub protocol_ok: bool, // for this server's protocol id
    pub lists_server: bool,
    pub expire_ts: u64,
    pub timeout: i32,
    pub dead_leading: usize,
    pub first_addr: Option<SocketAddr>, // address it was first presented from (model of the token-entry table)
    pub presented: Vec<(SocketAddr, u64)>, // (from, server ms) of every unmodified presentation that the server processed
    pub inc_presented: Vec<(SocketAddr, u32)>, // (from, server incarnation) of the same presentations
    pub sv_attempt: u32,                // server-side attempt/session counter (C17 scope)
    pub issued_for_incarnation: u32,
    pub ever_connected: bool,
    pub adv_owned: bool, // the adversary holds this token's keys (issued to it, or to a client on a hostile slot)
}

#[derive(Clone, Copy, PartialEq, Eq, Debug)]
pub enum Producer {
    Client { slot: usize, epoch: u32 },
    Server { incarnation: u32 },
    Adversary,
}

/// Every datagram that ever existed in the run.
pub struct DRec {
    pub bytes: Vec<u8>,
    pub src: SocketAddr,
    pub dst: SocketAddr,
    pub producer: Producer,
    pub ptype: u8,
    pub seq: u64,
    pub tid: Option<usize>,     // token whose keys sealed it / whose token it carries
    pub payload: Option<usize>, // index into payloads
    pub arrivals: u32,
    pub certainly_bogus: bool, // cannot be authentic for any session (junk, destructive mutation, wrong key)
    pub replayed: bool,
    pub challenge_for: Option<(u64, u32)>, // (client id, server incarnation) for Challenge datagrams / responses echoing it
    pub sv_attempt: u32,
    pub to_slot: Option<usize>,
    pub to_epoch: u32,
    pub accepted_in: Option<u32>,
    pub sealed_c2s: bool, // sealed under the client-to-server key (the server can open it) rather than the server-to-client key // server session number / client epoch in which the model saw it accepted
}

pub struct PayloadRec {
    pub bytes: Vec<u8>,
    pub from_server: bool,
    pub slot: usize,
    pub epoch: u32,
    pub client_id: u64,
    pub tid: usize,
    pub surfaced: u32,
    pub sess: u32,
    pub first_surfaced_in: Option<u32>,
}

pub struct Slot {
    pub addr: SocketAddr,
    pub client: Option<NetcodeClient>,
    pub tid: usize,
    pub epoch: u32,
    pub clock_ms: u64,
    pub created_ms: u64,
    pub c2s: Vec<usize>, // ledger indexes in flight to the server
    pub s2c: Vec<usize>,
    pub hostile: bool,
    // client-side receive model
    pub rx_seen: BTreeSet<u64>,
    pub rx_highest: Option<u64>,
    pub rx_taint: bool,
    pub strict_ms: u64,  // client clock of last strict-authentic arrival
    pub lenient_ms: u64, // client clock of last lenient arrival
    pub was_connected: bool,
    pub connected_at_ms: Option<u64>,
    pub reported_reason: Option<renetcode::DisconnectReason>,
    pub app_disconnected: bool,
    pub crashed: bool,
}

/// Model of one server-side session (between ClientConnected and ClientDisconnected).
pub struct Sess {
    pub client_id: u64,
    pub addr: SocketAddr,
    pub tid: usize,
    pub slot: Option<usize>,
    pub epoch: u32,
    pub sess_no: u32,
    pub rx_seen: BTreeSet<u64>,
    pub rx_highest: Option<u64>,
    pub rx_taint: bool,
    pub strict_ms: u64,
    pub lenient_ms: u64,
    pub connected_ms: u64,
}

/// "Late denial": a client is refused by a full server, the refusal is held back by the network, the server gets room, the
/// client's next request is admitted and the session starts; only then does the refusal arrive, and traffic goes on.
pub struct Scn {
    pub stage: u8,
    pub slot: usize,
    pub epoch: u32,
    pub denial_seq: u64,
    pub sent: u32,
}

pub struct WorldB {
    pub cfg: Cfg,
    pub rng_installed: bool,
    /// the stream behind the library's OS randomness; monitors that need randomness of their own switch to a side stream and back
    pub sut_rng: std::rc::Rc<std::cell::RefCell<Rng>>,
    pub server: NetcodeServer,
    pub incarnation: u32,
    pub secure: bool,
    pub protocol_id: u64,
    pub server_key: [u8; 32],
    pub public: Vec<SocketAddr>,
    pub dead_addr: SocketAddr,
    pub max_clients_ctor: usize,
    pub max_clients_cur: usize,
    pub max_ever_lowered: bool,
    pub sv_ms: u64,
    pub tokens: Vec<TokenRec>,
    pub slots: Vec<Slot>,
    pub ledger: Vec<DRec>,
    pub payloads: Vec<PayloadRec>,
    pub sessions: BTreeMap<u64, Sess>, // by client id (model)
    pub sess_counter: u32,
    pub nonce_table: HashMap<(usize, u8, u32, u64), u64>, // (tid, dir, scope, seq) -> hash of datagram
    /// first eight keystream bytes (ciphertext xor known plaintext) of session datagrams -> packet number: two packet numbers
    /// under one key must never share a keystream, whatever the header says
    pub ks_table: HashMap<(usize, u8, u32, [u8; 8]), u64>,
    pub adv_addr: SocketAddr,
    pub flooded: bool,
    /// the next token lists only one of the server's public addresses (a backend that hands out the address it prefers)
    pub next_token_subset: bool,
    pub payload_counter: u64,
    pub ev_connected: BTreeMap<u64, (SocketAddr, bool)>, // id -> (addr, currently connected per event stream)
    pub challenges_seen: Vec<(u64, Vec<u8>, u64, u32)>, // (token_sequence, token_data, for client id, incarnation)
    pub hs_stats: [u32; 4],
    /// replay window of half-open entries: (token, accepted sequences, highest), carried into the session on connect
    pub pend_model: HashMap<SocketAddr, (usize, BTreeSet<u64>, Option<u64>)>,
    /// violations noticed where no observer is at hand (token issue); flushed by the next apply_op
    pub deferred: Vec<(String, String, String, String)>,
    pub token_roundtrips: u64,
    pub warm_queue: std::collections::VecDeque<Op>,
    /// scripted scenario in progress (generator state only: every step it emits is an ordinary recorded operation)
    pub scn: Option<Scn>,
    /// the current server tick sends a payload to every session between update() and the per-client pass
    pub stream_first: bool,
}

pub fn make_world(cfg: &Cfg) -> Box<dyn World> {
    Box::new(WorldB::new(cfg))
}

fn addr_v4(a: u8, b: u8, c: u8, d: u8, port: u16) -> SocketAddr {
    SocketAddr::new(IpAddr::V4(Ipv4Addr::new(a, b, c, d)), port)
}

impl Drop for WorldB {
    fn drop(&mut self) {
        if self.rng_installed {
            renetcode::verif_rng::install(None);
        }
    }
}

impl WorldB {
    pub fn new(cfg: &Cfg) -> WorldB {
        // SUT-side randomness: second stream derived from the run (configuration) seed
        let sut_rng = std::rc::Rc::new(std::cell::RefCell::new(Rng::new(cfg.get("sutseed") ^ 0x5EED_0B0B)));
        let shared = sut_rng.clone();
        renetcode::verif_rng::install(Some(Box::new(move |buf: &mut [u8]| shared.borrow_mut().fill(buf))));
        let secure = cfg.get("secure") == 1;
        let protocol_id = 0x1122_3344_5566_0000 + cfg.get("proto");
        let mut krng = Rng::new(cfg.get("sutseed") ^ 0xAB);
        let mut server_key = [0u8; 32];
        if secure {
            krng.fill(&mut server_key);
        }
        let npub = cfg.get("npub").max(1) as usize;
        let mut public = vec![addr_v4(10, 0, 0, 1, 5000)];
        if npub > 1 {
            public.push(SocketAddr::new(IpAddr::V6(Ipv6Addr::new(0xfd00, 0, 0, 0, 0, 0, 0, 1)), 5001));
        }
        if npub > 2 {
            public.push(addr_v4(10, 0, 0, 3, 5002));
        }
        let max_clients = cfg.get("maxcl").max(1) as usize;
        // (epoch: the server's clock is wall-clock time since the Unix epoch, as the library's examples set it up, instead of a
        // small number: seconds that no longer fit a 24-bit mantissa, milliseconds beyond 2^40)
        let t0_secs = if cfg.get("epoch") == 1 { 1_700_000_000 } else { T0_SECS };
        let server = NetcodeServer::new(ServerConfig {
            current_time: Duration::from_secs(t0_secs),
            max_clients,
            protocol_id,
            public_addresses: public.clone(),
            authentication: if secure { ServerAuthentication::Secure { private_key: server_key } } else { ServerAuthentication::Unsecure },
        });
        let nslots = cfg.get("nslots").max(1) as usize;
        let hostile_mask = cfg.get("hostile");
        let slots = (0..nslots)
            .map(|j| Slot {
                // (addrmix: what a dual-stack socket reports — IPv4 hosts as IPv4-mapped IPv6 addresses, others as native IPv6)
                addr: match (cfg.get("addrmix"), j % 3) {
                    (1, 0) => SocketAddr::new(IpAddr::V6(Ipv4Addr::new(192, 168, 0, 10 + j as u8).to_ipv6_mapped()), 4000 + j as u16),
                    (1, 1) => SocketAddr::new(IpAddr::V6(Ipv6Addr::new(0xfd00, 0, 0, 0, 0, 0, 0x10, 10 + j as u16)), 4000 + j as u16),
                    _ => addr_v4(192, 168, 0, 10 + j as u8, 4000 + j as u16),
                },
                client: None,
                tid: 0,
                epoch: 0,
                clock_ms: 0,
                created_ms: 0,
                c2s: Vec::new(),
                s2c: Vec::new(),
                hostile: hostile_mask & (1 << j) != 0,
                rx_seen: BTreeSet::new(),
                rx_highest: None,
                rx_taint: false,
                strict_ms: 0,
                lenient_ms: 0,
                was_connected: false,
                connected_at_ms: None,
                reported_reason: None,
                app_disconnected: false,
                crashed: false,
            })
            .collect();
        let mut w = WorldB {
            cfg: cfg.clone(),
            rng_installed: true,
            sut_rng,
            server,
            incarnation: 0,
            secure,
            protocol_id,
            server_key,
            public,
            dead_addr: addr_v4(10, 9, 9, 9, 5999),
            max_clients_ctor: max_clients,
            max_clients_cur: max_clients,
            max_ever_lowered: false,
            sv_ms: t0_secs * 1000,
            tokens: Vec::new(),
            slots,
            ledger: Vec::new(),
            payloads: Vec::new(),
            sessions: BTreeMap::new(),
            sess_counter: 0,
            nonce_table: HashMap::new(),
            ks_table: HashMap::new(),
            adv_addr: addr_v4(66, 66, 66, 66, 6666),
            flooded: false,
            next_token_subset: false,
            payload_counter: 0,
            ev_connected: BTreeMap::new(),
            challenges_seen: Vec::new(),
            hs_stats: [0; 4],
            pend_model: HashMap::new(),
            deferred: Vec::new(),
            token_roundtrips: 0,
            warm_queue: std::collections::VecDeque::new(),
            scn: None,
            stream_first: false,
        };
        w.nonce_probe();
        // optional warm-up (part of the recorded trace, emitted through gen): clients are created and a few clean rounds run,
        // so that most of the run happens on established sessions
        if cfg.get("warm") > 0 {
            for j in 0..nslots as u64 {
                w.warm_queue.push_back(Op::new(K_NEWCLIENT, j, j, 0, 8));
            }
            for _ in 0..cfg.get("warm") {
                for j in 0..nslots as u64 {
                    w.warm_queue.push_back(Op::new(K_TICKCLIENT, j, 100, 0, 0));
                }
                w.warm_queue.push_back(Op::new(K_TICKSERVER, 100, 0, 0, 0));
                for j in 0..nslots as u64 {
                    w.warm_queue.push_back(Op::new(K_DELIVERALL, j, 0, 0, 0));
                    w.warm_queue.push_back(Op::new(K_DELIVERALL, j, 1, 0, 0));
                }
            }
        }
        w
    }

    /// The harness is the token backend. `variant`: 0 genuine; 1 foreign key; 2 foreign protocol id; 3 lists only foreign hosts.
    pub fn issue_token(&mut self, id: u64, variant: u64, expire_secs: u64, timeout: i32, dead_leading: usize, naddr: usize) -> usize {
        let mut user_data = [0u8; 256];
        let tag = self.tokens.len() as u64;
        let mut x = crate::prng::mix(&[id, tag, 77]);
        for b in user_data.iter_mut() {
            x = x.wrapping_mul(6364136223846793005).wrapping_add(1442695040888963407);
            *b = (x >> 33) as u8;
        }
        user_data[0] = tag as u8;
        if self.cfg.get("ud_shared") == 1 {
            // an application that puts the same user data into every token (a lobby name, zeroes): tokens differ by id and keys only
            user_data = [0x5A; 256];
        }
        let key = if variant == 1 {
            let mut k = self.server_key;
            k[0] ^= 0x55;
            k[31] ^= 0xAA;
            k
        } else if self.secure {
            self.server_key
        } else {
            [0u8; 32]
        };
        let protocol = if variant == 2 || variant == 5 { self.protocol_id ^ 1 } else { self.protocol_id };
        let mut addrs: Vec<SocketAddr> = Vec::new();
        for k in 0..dead_leading {
            // (deaddup: a backend that lists its preferred, currently silent, server twice before the alternative)
            let k = if self.cfg.get("deaddup") == 1 { 0 } else { k };
            addrs.push(addr_v4(10, 9, 9, 1 + k as u8, 5990 + k as u16));
        }
        if variant == 3 {
            // a host the server is not: an unrelated one, or a look-alike of its first public address (other port, neighbouring
            // host, and the IPv4-compatible `::a.b.c.d` and IPv4-mapped `::ffff:a.b.c.d` spellings, which are different addresses)
            let look = match (tag % 5, self.public[0]) {
                (1, p) => SocketAddr::new(p.ip(), p.port().wrapping_add(1)),
                (2, SocketAddr::V4(a)) => {
                    let o = a.ip().octets();
                    SocketAddr::new(IpAddr::V6(Ipv6Addr::new(0, 0, 0, 0, 0, 0, ((o[0] as u16) << 8) | o[1] as u16, ((o[2] as u16) << 8) | o[3] as u16)), a.port())
                }
                (3, SocketAddr::V4(a)) => SocketAddr::new(IpAddr::V6(a.ip().to_ipv6_mapped()), a.port()),
                (4, SocketAddr::V4(a)) => {
                    let o = a.ip().octets();
                    SocketAddr::new(IpAddr::V4(Ipv4Addr::new(o[0], o[1], o[2], o[3] ^ 1)), a.port())
                }
                _ => addr_v4(10, 7, 7, 7, 5000),
            };
            addrs.push(look);
        } else {
            // the live public addresses, in order (or just one of them), then padding with further foreign hosts up to naddr
            if self.next_token_subset && self.public.len() > 1 {
                addrs.push(self.public[tag as usize % self.public.len()]);
            } else {
                for a in &self.public {
                    addrs.push(*a);
                }
            }
        }
        let mut k = 0;
        while addrs.len() < naddr.min(32) {
            // padding with further (foreign) hosts, including the odd corners of the address space
            let a = match k % 6 {
                0 => SocketAddr::new(IpAddr::V6(Ipv6Addr::new(0xfd00, 0, 0, 0, 0, 0, 9, k as u16)), 5900 + k as u16),
                1 => SocketAddr::new(IpAddr::V6(Ipv4Addr::new(10, 20, 30, k as u8).to_ipv6_mapped()), 5900 + k as u16),
                2 => SocketAddr::new(IpAddr::V4(Ipv4Addr::new(255, 255, 255, 255)), 65535),
                3 => SocketAddr::new(IpAddr::V6(Ipv6Addr::UNSPECIFIED), 0),
                4 => SocketAddr::new(IpAddr::V4(Ipv4Addr::new(0, 0, 0, k as u8)), 1),
                _ => SocketAddr::new(IpAddr::V6(Ipv6Addr::new(0, 0, 0, 0, 0, 0, 0, 1)), 5900 + k as u16),
            };
            addrs.push(a);
            k += 1;
        }
        addrs.truncate(32);
        let now = Duration::from_millis(self.sv_ms);
        // (expmix: a backend whose tokens do not all live equally long — every third one lives twice, every other third three
        // times as long — so that an address may hold a long-lived token while a shorter-lived one of its own runs out)
        let expire_secs = if self.cfg.get("expmix") == 1 { expire_secs * (1 + tag % 3) } else { expire_secs };
        let mut token = ConnectToken::generate(now, protocol, expire_secs, id, timeout, addrs.clone(), Some(&user_data), &key).expect("token generation");
        if variant == 5 {
            // the holder of a token sealed for another protocol id controls the clear-text copy of that field
            token.protocol_id = self.protocol_id;
        }
        // C16 monitor on every token the run produces: public write/read and private seal/open give back what went in
        self.token_roundtrips += 1;
        let mut bytes = Vec::new();
        if token.write(&mut bytes).is_err() {
            self.deferred.push(("C16".into(), "token-write-fails".into(), "write".into(), format!("id {}", id)));
        } else {
            match ConnectToken::read(&mut std::io::Cursor::new(&bytes)) {
                Ok(t2) if t2 == token => {}
                Ok(_) => self.deferred.push(("C16".into(), "token-write-read-differs".into(), "roundtrip".into(), format!("id {} addresses {:?}", id, addrs))),
                Err(e) => self.deferred.push(("C16".into(), "genuine-token-unreadable".into(), "read".into(), format!("{}", e))),
            }
            // the same bytes through a reader that hands them over in pieces (a socket, a chained buffer) and through a writer
            // that takes them in pieces: short reads and short writes are legal for io::Read / io::Write
            let chunk = [1usize, 7, 64, 500, 1000][tag as usize % 5];
            match ConnectToken::read(&mut ChunkIo { data: bytes.clone(), pos: 0, chunk }) {
                Ok(t2) if t2 == token => {}
                Ok(_) => self.deferred.push(("C16".into(), "token-write-read-differs".into(), "short-reads".into(), format!("id {} chunk {}", id, chunk))),
                Err(e) => self.deferred.push(("C16".into(), "genuine-token-unreadable".into(), "short-reads".into(), format!("chunk {}: {}", chunk, e))),
            }
            let mut w = ChunkIo { data: Vec::new(), pos: 0, chunk };
            if token.write(&mut w).is_err() || w.data != bytes {
                self.deferred.push(("C16".into(), "token-write-differs".into(), "short-writes".into(), format!("id {} chunk {}", id, chunk)));
            }
        }
        // the same token with a lifetime at the edges of what generate accepts (a backend may hand out tokens that are valid for
        // zero seconds, or practically for ever): whatever generate builds and write serializes, read gives back
        {
            let life = [0u64, 1, 0, 1 << 31, 1 << 40][tag as usize % 5];
            // (keys and nonce of the probe come from a side stream, so that the run's own stream is the same with and without it)
            let mut side = Rng::new(crate::prng::mix(&[tag, 0xED6E]));
            renetcode::verif_rng::install(Some(Box::new(move |buf: &mut [u8]| side.fill(buf))));
            let edge = ConnectToken::generate(now, protocol, life, id, timeout, addrs.clone(), Some(&user_data), &key);
            let shared = self.sut_rng.clone();
            renetcode::verif_rng::install(Some(Box::new(move |buf: &mut [u8]| shared.borrow_mut().fill(buf))));
            if let Ok(edge) = edge {
                self.token_roundtrips += 1;
                let mut b = Vec::new();
                if edge.write(&mut b).is_ok() {
                    match ConnectToken::read(&mut std::io::Cursor::new(&b)) {
                        Ok(t2) if t2 == edge => {}
                        Ok(_) => self.deferred.push(("C16".into(), "token-write-read-differs".into(), "lifetime-edge".into(), format!("id {} lifetime {} s", id, life))),
                        Err(e) => self.deferred.push(("C16".into(), "genuine-token-unreadable".into(), "lifetime-edge".into(), format!("lifetime {} s: {}", life, e))),
                    }
                }
            }
        }
        let listed: Vec<SocketAddr> = token.server_addresses.iter().flatten().copied().collect();
        if listed != addrs {
            self.deferred.push(("C16".into(), "token-addresses-differ-from-input".into(), "generate".into(), format!("{:?} vs {:?}", listed, addrs)));
        }
        match renetcode::verif::private_token_decode(&token.private_data, protocol, token.expire_timestamp, &token.xnonce, &key) {
            Some(pt) => {
                let sealed: Vec<SocketAddr> = pt.server_addresses.iter().flatten().copied().collect();
                if sealed != addrs || pt.client_id != id || pt.user_data != user_data || pt.client_to_server_key != token.client_to_server_key || pt.server_to_client_key != token.server_to_client_key || pt.timeout_seconds != timeout {
                    self.deferred.push(("C16".into(), "private-token-seal-open-differs".into(), "roundtrip".into(), format!("id {} addresses {:?} vs {:?}", id, sealed, addrs)));
                }
            }
            None => self.deferred.push(("C16".into(), "private-token-does-not-open".into(), "decode".into(), format!("id {}", id))),
        }
        let rec = TokenRec {
            id,
            user_data,
            expire_ts: token.expire_timestamp,
            token,
            key_ok: variant != 1,
            protocol_ok: variant != 2 && variant != 5,
            lists_server: variant != 3 || !self.secure,
            timeout,
            dead_leading,
            first_addr: None,
            presented: Vec::new(),
            inc_presented: Vec::new(),
            sv_attempt: 0,
            issued_for_incarnation: self.incarnation,
            adv_owned: false,
            ever_connected: false,
        };
        self.tokens.push(rec);
        self.tokens.len() - 1
    }

    /// C17 monitor, once per world on a scratch session of its own (side RNG stream, nothing of the run is touched): packets
    /// sealed under one key at packet numbers on both sides of every length class use pairwise different keystreams.
    fn nonce_probe(&mut self) {
        let mut side = Rng::new(self.cfg.get("sutseed") ^ 0x17_0B_E5);
        renetcode::verif_rng::install(Some(Box::new(move |buf: &mut [u8]| side.fill(buf))));
        let key = [7u8; 32];
        let addr = addr_v4(10, 77, 0, 1, 7000);
        let caddr = addr_v4(10, 77, 0, 2, 7001);
        let now = Duration::from_secs(T0_SECS);
        let mut server = NetcodeServer::new(ServerConfig { current_time: now, max_clients: 1, protocol_id: 17, public_addresses: vec![addr], authentication: ServerAuthentication::Secure { private_key: key } });
        let token = ConnectToken::generate(now, 17, 300, 1, 15, vec![addr], None, &key).expect("probe token");
        let mut client = NetcodeClient::new(now, ClientAuthentication::Secure { connect_token: token }).expect("probe client");
        for _ in 0..4 {
            let out = client.update(Duration::from_millis(300)).map(|(b, _)| b.to_vec());
            if let Some(mut dg) = out {
                let reply = match server.process_packet(caddr, &mut dg) {
                    renetcode::ServerResult::PacketToSend { payload, .. } => Some(payload.to_vec()),
                    renetcode::ServerResult::ClientConnected { payload, .. } => Some(payload.to_vec()),
                    _ => None,
                };
                if let Some(mut r) = reply {
                    let _ = client.process_packet(&mut r);
                }
            }
        }
        if client.is_connected() {
            let numbers: [u64; 14] = [1, 2, 3, 255, 256, 257, 512, 768, 65_535, 65_536, 1 << 24, 1 << 32, 1 << 40, 1 << 56];
            let mut seen: Vec<([u8; 8], u64)> = Vec::new();
            for n in numbers {
                client.verif_set_sequence(n);
                let Ok((_, dg)) = client.generate_payload_packet(&[0u8; 16]) else { continue };
                let len = (dg[0] >> 4) as usize;
                let mut ks = [0u8; 8];
                ks.copy_from_slice(&dg[1 + len..1 + len + 8]);
                if let Some((_, prev)) = seen.iter().find(|(k, _)| *k == ks) {
                    self.deferred.push(("C17".into(), "keystream-reused-under-one-key".into(), "probe".into(), format!("packet numbers {} and {} are sealed with the same keystream", prev, n)));
                }
                seen.push((ks, n));
            }
        }
        let shared = self.sut_rng.clone();
        renetcode::verif_rng::install(Some(Box::new(move |buf: &mut [u8]| shared.borrow_mut().fill(buf))));
    }

    pub fn token_valid_now(&self, tid: usize) -> bool {
        let t = &self.tokens[tid];
        t.key_ok && t.protocol_ok && t.lists_server && self.sv_ms / 1000 < t.expire_ts
    }

    pub fn slot_of_addr(&self, a: SocketAddr) -> Option<usize> {
        self.slots.iter().position(|s| s.addr == a)
    }

    pub fn is_server_addr(&self, a: SocketAddr) -> bool {
        self.public.contains(&a)
    }

    pub fn new_client(&mut self, slot: usize, tid: usize) {
        let reused = self.slots.iter().any(|o| o.tid == tid && o.epoch > 0);
        let s = &mut self.slots[slot];
        let tok = self.tokens[tid].token.clone();
        let start = Duration::from_millis(s.clock_ms);
        let client = NetcodeClient::new(start, ClientAuthentication::Secure { connect_token: tok }).expect("client");
        s.client = Some(client);
        s.tid = tid;
        s.epoch += 1;
        s.created_ms = s.clock_ms;
        s.c2s.clear(); // datagrams of the previous object stay in the ledger (replayable) but leave the wire
        s.rx_seen.clear();
        s.rx_highest = None;
        // a client object made from a token that an earlier object already used shares keys with that object's sessions:
        // what it accepts from the old sessions' leftovers cannot be modelled (root cause listed as known finding on the server side)
        s.rx_taint = reused;
        s.strict_ms = s.clock_ms;
        s.lenient_ms = s.clock_ms;
        s.was_connected = false;
        s.connected_at_ms = None;
        s.reported_reason = None;
        s.app_disconnected = false;
        s.crashed = false;
    }
}

impl World for WorldB {
    fn gen_op(&mut self, rng: &mut Rng) -> Op {
        self.gen(rng)
    }
    fn apply(&mut self, op: &Op, obs: &mut Obs) {
        self.apply_op(op, obs)
    }
    fn epilogue(&mut self, obs: &mut Obs) {
        self.run_epilogue(obs)
    }
    fn panic_props(&self, op: Option<&Op>) -> Vec<String> {
        let mut v = vec!["C07".to_string()];
        let hostile_op = op.map(|o| matches!(o.k, K_JUNK | K_MUTATE | K_REPLAY | K_FORGEREQ | K_FORGERESP | K_FORGESESS | K_TAMPER | K_TOKENSURGERY | K_FORGEEXPIRY | K_REFRAME | K_STALERESP | K_TAGSQUAT)).unwrap_or(false);
        if !hostile_op {
            for p in ["C04", "C05", "C10", "C17", "C18", "C19"] {
                v.push(p.to_string());
            }
        }
        v
    }
    fn op_names(&self) -> &'static [&'static str] {
        OP_NAMES
    }
}

pub fn gen_cfg(family: &str, rng: &mut Rng) -> Cfg {
    let mut cfg = Cfg::new("B", family);
    cfg.set("sutseed", rng.next() >> 1);
    cfg.set("secure", if family == "handshake" || rng.chance(5, 6) { 1 } else { 0 });
    cfg.set("proto", rng.below(4));
    cfg.set("npub", *rng.pick(&[1u64, 1, 2, 3]));
    let nslots = if family == "handshake" && rng.chance(1, 3) { rng.range(4, 6) } else { rng.range(1, 4) };
    cfg.set("nslots", nslots);
    cfg.set("nids", if nslots > 4 { 6 } else { rng.range(1, 4) });
    cfg.set("maxcl", rng.range(1, 4));
    cfg.set("timeout", *rng.pick(&[1u64, 2, 5, 5, 15, 0xFFFF_FFFF])); // last = -1 (disabled)
    cfg.set("expire", *rng.pick(&[1u64, 2, 5, 30, 30, 300]));
    cfg.set("dead", *rng.pick(&[0u64, 0, 0, 1, 2]));
    if rng.chance(1, 4) {
        cfg.set("epoch", 1);
    }
    if rng.chance(1, 3) {
        cfg.set("addrmix", 1);
    }
    if cfg.get("expire") <= 5 && rng.chance(1, 3) {
        cfg.set("expmix", 1);
    }
    if cfg.get("dead") == 2 && rng.chance(1, 2) {
        cfg.set("deaddup", 1);
    }
    cfg.set("naddr", *rng.pick(&[1u64, 2, 3, 8, 32]));
    cfg.set("loss", *rng.pick(&[0u64, 0, 10, 25, 50]));
    cfg.set("dup", *rng.pick(&[0u64, 0, 10, 40]));
    cfg.set("reorder", rng.below(3));
    cfg.set("tele", if rng.chance(1, 5) { 1 } else { 0 });
    if rng.chance(1, 2) {
        cfg.set("hostile", 1 << rng.below(nslots));
    }
    match family {
        "hostile" => {
            cfg.set("adv", 3);
        }
        "handshake" => {
            cfg.set("adv", *rng.pick(&[0u64, 1, 2, 2]));
        }
        "session" | "tamper" => {
            cfg.set("adv", *rng.pick(&[0u64, 1, 2]));
            cfg.set("warm", *rng.pick(&[0u64, 4, 4]));
        }
        "liveness" => {
            cfg.set("adv", *rng.pick(&[0u64, 0, 1]));
            cfg.set("expire", *rng.pick(&[30u64, 300]));
        }
        _ => {}
    }
    if family == "liveness" || family == "handshake" {
        cfg.set("heal_lag", rng.below(2));
    }
    if family != "liveness" {
        cfg.set("ud_shared", if rng.chance(1, 4) { 1 } else { 0 });
    }
    cfg
}

/// An io::Read / io::Write that moves at most `chunk` bytes per call.
pub struct ChunkIo {
    pub data: Vec<u8>,
    pub pos: usize,
    pub chunk: usize,
}

impl std::io::Read for ChunkIo {
    fn read(&mut self, buf: &mut [u8]) -> std::io::Result<usize> {
        let n = buf.len().min(self.chunk).min(self.data.len() - self.pos);
        buf[..n].copy_from_slice(&self.data[self.pos..self.pos + n]);
        self.pos += n;
        Ok(n)
    }
}

impl std::io::Write for ChunkIo {
    fn write(&mut self, buf: &[u8]) -> std::io::Result<usize> {
        let n = buf.len().min(self.chunk);
        self.data.extend_from_slice(&buf[..n]);
        Ok(n)
    }
    fn flush(&mut self) -> std::io::Result<()> {
        Ok(())
    }
}
