//! Engine B: executing operations.
use super::oracle::{own, parse_prefix, tname, Res};
use super::*;

impl WorldB {
    fn ident_of(&self, _slot: usize, a: u64) -> u64 {
        let nids = self.cfg.get("nids").max(1);
        1 + (a % nids)
    }

    fn token_params(&self, flags: u64) -> (u64, i32, usize, usize) {
        let expire = self.cfg.get("expire").max(1);
        let timeout_raw = self.cfg.get("timeout");
        let timeout: i32 = if timeout_raw == 0xFFFF_FFFF { -1 } else { timeout_raw as i32 };
        let dead = if flags & 8 != 0 { 0 } else { self.cfg.get("dead") as usize };
        let naddr = self.cfg.get("naddr").max(1) as usize;
        (expire, timeout, dead, naddr)
    }

    pub fn token_params_pub(&self, flags: u64) -> (u64, i32, usize, usize) {
        self.token_params(flags)
    }

    fn tick_client(&mut self, slot: usize, dt: u64, obs: &mut Obs) {
        obs.sim_ms += dt;
        let s = &mut self.slots[slot];
        s.clock_ms += dt;
        let Some(c) = s.client.as_mut() else { return };
        let was_connected = c.is_connected();
        let was_disconnected = c.is_disconnected();
        let out = c.update(Duration::from_millis(dt)).map(|(b, a)| (b.to_vec(), a));
        let now_disc = c.disconnect_reason();
        let addr = s.addr;
        let epoch = s.epoch;
        let tid = s.tid;
        let clock = s.clock_ms;
        let strict = s.strict_ms;
        let lenient = s.lenient_ms;
        let timeout = self.tokens[tid].timeout;
        obs.count("op.tick_client");
        // C18 timeouts on the client side
        if was_connected && timeout > 0 {
            let tmo = timeout as u64 * 1000;
            obs.count("oracle.C18.client_timeout");
            let timed_out = matches!(now_disc, Some(renetcode::DisconnectReason::ConnectionTimedOut));
            if clock - lenient > tmo && !timed_out && now_disc.is_none() {
                obs.violate("C18", "silent-server-not-timed-out", "client", format!("slot {} silent for {} ms > timeout {} ms", slot, clock - lenient, tmo));
            }
            if timed_out && clock - strict <= tmo && !self.slots[slot].rx_taint {
                obs.violate("C18", "live-server-timed-out", "client", format!("slot {} last authentic arrival {} ms ago <= timeout {} ms", slot, clock - strict, tmo));
            }
            if timed_out {
                obs.count("probe.client_timed_out");
            }
        }
        if was_disconnected && out.is_some() {
            obs.violate("C18", "disconnected-client-emits", "client", format!("slot {}", slot));
        }
        if let Some((bytes, to)) = out {
            let (pt, _, _) = parse_prefix(&bytes);
            if pt == T_REQUEST {
                self.hs_stats[0] += 1;
            }
            let ix = self.emit(bytes, addr, to, Producer::Client { slot, epoch }, Some(tid), None, obs);
            if pt == T_RESPONSE {
                // which issued challenge does the response echo? read it with the crate's own codec and the token's key
                let key = self.tokens[tid].token.client_to_server_key;
                let mut b = self.ledger[ix].bytes.clone();
                if let Ok((_, renetcode::verif::Packet::Response { token_sequence, token_data })) =
                    renetcode::verif::Packet::decode(&mut b, self.tokens[tid].token.protocol_id, Some(&key), None)
                {
                    self.ledger[ix].challenge_for =
                        self.challenges_seen.iter().find(|c| c.0 == token_sequence && c.1[..] == token_data[..]).map(|c| (c.2, c.3));
                }
            }
        }
        self.note_client_state(slot, obs);
    }

    /// The challenge the client object in `slot` currently holds: that of the first Challenge datagram delivered to it
    /// while it was requesting (per address attempt).
    pub(super) fn slot_challenge(&self, slot: usize) -> Option<(u64, u32)> {
        // last Challenge datagram genuinely delivered to this slot in its current epoch that found it requesting
        self.ledger
            .iter()
            .rev()
            .find(|r| r.ptype == T_CHALLENGE && r.to_slot == Some(slot) && r.to_epoch == self.slots[slot].epoch && r.arrivals > 0 && !r.certainly_bogus && r.tid == Some(self.slots[slot].tid))
            .and_then(|r| r.challenge_for)
    }

    pub(super) fn tick_server(&mut self, dt: u64, transport_order: bool, obs: &mut Obs) {
        obs.sim_ms += dt;
        self.sv_ms += dt;
        self.server.update(Duration::from_millis(dt));
        obs.count("op.tick_server");
        if transport_order {
            // the order of a transport's update: clock first, then everything waiting in the socket, then the per-client
            // pass; packets are handled while timed-out sessions have not been reaped yet
            obs.count("op.tick_server_transport_order");
            for j in 0..self.slots.len() {
                while !self.slots[j].c2s.is_empty() {
                    self.deliver_from_pool(j, 0, 0, false, obs);
                }
            }
        }
        if self.stream_first {
            obs.count("op.tick_server_streams_before_client_pass");
            for j in 0..self.slots.len() {
                self.gen_payload(j, true, 9, obs);
            }
        }
        let mut ids = self.server.clients_id();
        ids.sort();
        for id in ids {
            let res = own(self.server.update_client(id));
            // C18 (b)/(c) on the server side, against the model's two clocks
            if let Some(s) = self.sessions.get(&id) {
                let timeout = self.tokens[s.tid].timeout;
                if timeout > 0 {
                    obs.count("oracle.C18.server_timeout");
                    let tmo = timeout as u64 * 1000;
                    let disconnected = matches!(res, Res::Disconnected { .. });
                    if self.sv_ms - s.lenient_ms > tmo && !disconnected {
                        obs.violate("C18", "silent-client-not-timed-out", "server", format!("client {} silent for {} ms > timeout {} ms", id, self.sv_ms - s.lenient_ms, tmo));
                    }
                    if disconnected && self.sv_ms - s.strict_ms <= tmo && !s.rx_taint {
                        obs.violate("C18", "live-client-timed-out", "server", format!("client {} last authentic arrival {} ms ago <= timeout {} ms", id, self.sv_ms - s.strict_ms, tmo));
                    }
                    if disconnected {
                        obs.count("probe.server_timed_out_client");
                    }
                }
            }
            let addr = self.server.client_addr(id).unwrap_or(self.adv_addr);
            self.handle_res(res, addr, None, obs);
        }
        // a session ends by a reported disconnect or timeout, never by silently dropping out of the table: a peer whose
        // authentic packets arrived within the timeout must still be there after the update
        for (id, s) in &self.sessions {
            obs.count("oracle.C18.session_still_there");
            let timeout = self.tokens[s.tid].timeout;
            let live = timeout <= 0 || self.sv_ms - s.strict_ms <= timeout as u64 * 1000;
            if live && !self.server.is_client_connected(*id) {
                obs.violate("C18", "live-session-vanished-without-timeout", "server", format!("client {} at {} is gone from the table, no disconnect was reported", id, s.addr));
            }
        }
        // half-open sessions vanish when their token expires
        obs.count("oracle.C18.pending_expiry");
        for (addr, id) in self.server.verif_pending() {
            let expired = self.tokens.iter().filter(|t| t.id == id && t.presented.iter().any(|(a, _)| *a == addr)).all(|t| self.sv_ms / 1000 > t.expire_ts + 1);
            let any = self.tokens.iter().any(|t| t.id == id && t.presented.iter().any(|(a, _)| *a == addr));
            if any && expired {
                obs.violate("C18", "half-open-session-outlives-token", "pending", format!("addr {} id {}", addr, id));
            }
        }
    }

    fn gen_payload(&mut self, slot: usize, from_server: bool, len: usize, obs: &mut Obs) {
        self.payload_counter += 1;
        let n = self.payload_counter;
        let mut bytes = vec![0u8; len];
        let mut r = Rng::new(crate::prng::mix(&[n, slot as u64, from_server as u64]));
        r.fill(&mut bytes);
        let hdr = [0xB7u8, slot as u8, from_server as u8, n as u8, (n >> 8) as u8, (n >> 16) as u8, (n >> 24) as u8, self.slots[slot].epoch as u8];
        for (i, h) in hdr.iter().enumerate() {
            if i < bytes.len() {
                bytes[i] = *h;
            }
        }
        let tid = self.slots[slot].tid;
        let epoch = self.slots[slot].epoch;
        if from_server {
            // address the session that belongs to this slot's client, if any
            let Some(id) = self.sessions.values().find(|s| s.slot == Some(slot)).map(|s| s.client_id) else { return };
            let out = self.server.generate_payload_packet(id, &bytes).map(|(a, b)| (a, b.to_vec()));
            match out {
                Ok((addr, dg)) => {
                    let stid = self.sessions[&id].tid;
                    let sess = self.sessions[&id].sess_no;
                    self.payloads.push(PayloadRec { bytes, from_server: true, slot, epoch, client_id: id, tid: stid, surfaced: 0, sess, first_surfaced_in: None });
                    let pi = self.payloads.len() - 1;
                    let from = self.public[0];
                    let inc = self.incarnation;
                    self.emit(dg, from, addr, Producer::Server { incarnation: inc }, Some(stid), Some(pi), obs);
                    obs.count("op.gen_payload_server");
                }
                Err(e) => {
                    if len <= 1300 {
                        obs.violate("C13", "payload-within-limit-refused", "server", format!("{} bytes: {}", len, e));
                    }
                }
            }
        } else {
            let s = &mut self.slots[slot];
            let addr = s.addr;
            let Some(c) = s.client.as_mut() else { return };
            let connected = c.is_connected();
            let id = c.client_id();
            let out = c.generate_payload_packet(&bytes).map(|(a, b)| (a, b.to_vec()));
            match out {
                Ok((to, dg)) => {
                    self.payloads.push(PayloadRec { bytes, from_server: false, slot, epoch, client_id: id, tid, surfaced: 0, sess: 0, first_surfaced_in: None });
                    let pi = self.payloads.len() - 1;
                    self.emit(dg, addr, to, Producer::Client { slot, epoch }, Some(tid), Some(pi), obs);
                    obs.count("op.gen_payload_client");
                }
                Err(e) => {
                    if connected && len <= 1300 {
                        obs.violate("C13", "payload-within-limit-refused", "client", format!("{} bytes: {}", len, e));
                    }
                }
            }
        }
    }

    fn pick_pool(&self, slot: usize, dir: usize) -> &Vec<usize> {
        if dir == 0 {
            &self.slots[slot].c2s
        } else {
            &self.slots[slot].s2c
        }
    }

    fn deliver_from_pool(&mut self, slot: usize, dir: usize, idx: usize, keep: bool, obs: &mut Obs) {
        let n = self.pick_pool(slot, dir).len();
        if n == 0 {
            return;
        }
        let idx = idx % n;
        if idx > 0 {
            obs.count("fault.reorder");
        }
        let ix = if keep {
            obs.count("fault.dup");
            self.pick_pool(slot, dir)[idx]
        } else if dir == 0 {
            self.slots[slot].c2s.remove(idx)
        } else {
            self.slots[slot].s2c.remove(idx)
        };
        if self.ledger[ix].arrivals > 0 {
            obs.count("fault.redelivery_of_kept_datagram");
        }
        obs.abs.u64(0x200 + dir as u64 * 16 + self.ledger[ix].ptype as u64);
        if dir == 0 {
            let dst = self.ledger[ix].dst;
            if !self.is_server_addr(dst) {
                obs.count("net.sent_to_dead_address");
                return;
            }
            let src = self.ledger[ix].src;
            self.deliver_to_server(ix, src, false, obs);
        } else {
            self.deliver_to_client(ix, slot, false, obs);
        }
    }

    pub fn apply_op(&mut self, op: &Op, obs: &mut Obs) {
        obs.log.u64(op.k as u64);
        obs.log.u64(op.a);
        obs.log.u64(op.b);
        obs.log.u64(op.c);
        obs.log.u64(op.d);
        obs.abs.u64(op.k as u64);
        let ns = self.slots.len();
        match op.k {
            K_NEWCLIENT => {
                // a = slot, b = identity selector, c = token variant (0 genuine, 1 foreign key, 2 foreign protocol, 3 foreign hosts, 4 reuse slot's token), d = flags
                let slot = op.a as usize % ns;
                if self.slots[slot].client.is_some() {
                    obs.count("fault.client_crash_restart");
                }
                // (5 = sealed for a foreign protocol id, clear-text protocol field rewritten to the server's by the token holder)
                let variant = if op.c == 5 { 5 } else { op.c % 5 };
                self.next_token_subset = op.d & 2 != 0;
                let tid = if variant == 4 && self.slots[slot].epoch > 0 {
                    obs.count("probe.token_reused_for_new_client");
                    self.slots[slot].tid
                } else if variant == 4 {
                    let id = self.ident_of(slot, op.b);
                    let (e, t, d, n) = self.token_params(op.d);
                    self.issue_token(id, 0, e, t, d, n)
                } else {
                    let id = self.ident_of(slot, op.b);
                    let (e, t, d, n) = self.token_params(op.d);
                    if variant != 0 {
                        obs.count("probe.invalid_token_issued");
                    }
                    self.issue_token(id, variant, e, t, d, n)
                };
                if self.slots[slot].hostile {
                    self.tokens[tid].adv_owned = true;
                }
                self.next_token_subset = false;
                self.new_client(slot, tid);
                obs.count("op.new_client");
            }
            K_CRASH => {
                let slot = op.a as usize % ns;
                if self.slots[slot].client.take().is_some() {
                    obs.count("fault.client_crash");
                    self.slots[slot].crashed = true;
                    self.slots[slot].c2s.clear();
                }
            }
            K_TICKCLIENT => self.tick_client(op.a as usize % ns, op.b, obs),
            K_TICKSERVER if op.b == 2 => {
                // an application that streams to every connected client right after advancing the clock and before the
                // per-client pass (update, send, update_client): a legal order of the three calls
                self.stream_first = true;
                self.tick_server(op.a, false, obs);
                self.stream_first = false;
            }
            K_TICKSERVER => self.tick_server(op.a, op.b == 1, obs),
            K_DELIVER => self.deliver_from_pool(op.a as usize % ns, (op.b % 2) as usize, op.c as usize, op.d % 2 == 1, obs),
            K_DROP => {
                let slot = op.a as usize % ns;
                let dir = (op.b % 2) as usize;
                let n = self.pick_pool(slot, dir).len();
                if n > 0 {
                    let idx = op.c as usize % n;
                    let ix = if dir == 0 { self.slots[slot].c2s.remove(idx) } else { self.slots[slot].s2c.remove(idx) };
                    obs.count("fault.drop");
                    obs.count(&format!("fault.drop_{}", tname(self.ledger[ix].ptype)));
                }
            }
            K_DROPALL => {
                let slot = op.a as usize % ns;
                let dir = (op.b % 2) as usize;
                let n = self.pick_pool(slot, dir).len();
                if n > 0 {
                    obs.count_by("fault.drop", n as u64);
                    if dir == 0 {
                        self.slots[slot].c2s.clear()
                    } else {
                        self.slots[slot].s2c.clear()
                    }
                }
            }
            K_DELIVERALL => {
                let slot = op.a as usize % ns;
                let dir = (op.b % 2) as usize;
                let n = self.pick_pool(slot, dir).len();
                for _ in 0..n {
                    let len = self.pick_pool(slot, dir).len();
                    if len == 0 {
                        break;
                    }
                    let idx = if op.c % 2 == 1 { len - 1 } else { 0 };
                    self.deliver_from_pool(slot, dir, idx, false, obs);
                }
            }
            K_GENPAYLOAD => self.gen_payload(op.a as usize % ns, op.b % 2 == 1, (op.c % 1302) as usize, obs),
            K_GENBURST => {
                // many payloads at once, so that later deliveries straddle the 256-wide replay window
                let n = 200 + op.c % 200;
                obs.count("probe.payload_burst_wider_than_replay_window");
                for _ in 0..n {
                    self.gen_payload(op.a as usize % ns, op.b % 2 == 1, 9, obs);
                }
            }
            K_CLIENTDISC => {
                let slot = op.a as usize % ns;
                let s = &mut self.slots[slot];
                let (addr, epoch, tid) = (s.addr, s.epoch, s.tid);
                if let Some(c) = s.client.as_mut() {
                    if !c.is_disconnected() {
                        let out = c.disconnect().map(|(a, b)| (a, b.to_vec()));
                        s.app_disconnected = true;
                        obs.count("op.client_disconnect");
                        if let Ok((to, dg)) = out {
                            self.emit(dg, addr, to, Producer::Client { slot, epoch }, Some(tid), None, obs);
                        }
                    }
                }
                self.note_client_state(slot, obs);
            }
            K_SERVERDISC if op.b == 1 => {
                // the application names an id that is not connected — half-open at some address, or unknown: nothing is
                // reported and nothing changes (a handshake in progress is no session)
                let connected = self.server.clients_id();
                let mut half_open: Vec<u64> = self.server.verif_pending().into_iter().map(|(_, id)| id).filter(|id| !connected.contains(id)).collect();
                half_open.sort();
                half_open.dedup();
                let nids = self.cfg.get("nids").max(1);
                let id = if !half_open.is_empty() { half_open[op.a as usize % half_open.len()] } else { 1 + op.a % nids };
                if !connected.contains(&id) {
                    obs.count("oracle.C10.disconnect_of_unconnected_id_is_inert");
                    let before = self.server_snap();
                    let res = own(self.server.disconnect(id));
                    let after = self.server_snap();
                    if !matches!(res, Res::None) {
                        obs.violate("C10", "disconnect-event-without-connect", "half-open-or-unknown-id", format!("disconnect({}) produced a result", id));
                    }
                    if before != after {
                        obs.violate("C10", "disconnect-of-unconnected-id-changed-table", "disconnect", format!("id {}", id));
                    }
                }
            }
            K_SERVERDISC => {
                let mut ids = self.server.clients_id();
                ids.sort();
                if !ids.is_empty() {
                    let id = ids[op.a as usize % ids.len()];
                    let addr = self.server.client_addr(id).unwrap_or(self.adv_addr);
                    let res = own(self.server.disconnect(id));
                    obs.count("op.server_disconnect");
                    if !matches!(res, Res::Disconnected { .. }) {
                        obs.violate("C10", "disconnect-of-connected-client-reports-nothing", "disconnect", format!("id {}", id));
                    }
                    self.handle_res(res, addr, None, obs);
                } else {
                    // disconnecting an unknown id must report nothing
                    let res = own(self.server.disconnect(9_999_999));
                    if !matches!(res, Res::None) {
                        obs.violate("C10", "disconnect-event-without-connect", "unknown-id", "disconnect(unknown) produced a result".into());
                    }
                }
            }
            K_SETMAX => {
                let n = 1 + (op.a % 5) as usize;
                if n < self.max_clients_cur {
                    self.max_ever_lowered = true;
                    obs.count("probe.max_clients_lowered");
                } else if n > self.max_clients_cur {
                    obs.count("probe.max_clients_raised");
                }
                let before = self.server_snap();
                self.server.set_max_clients(n);
                self.max_clients_cur = n;
                // changing the limit changes nothing else: every session and half-open entry is still there, the accessor follows
                obs.count("oracle.C10.limit_change_keeps_table");
                if self.server.max_clients() != n {
                    obs.violate("C10", "limit-accessor-disagrees", "max_clients", format!("set {} read {}", n, self.server.max_clients()));
                }
                let after = self.server_snap();
                if before != after {
                    obs.violate("C10", "limit-change-altered-table", if after.clients.len() < before.clients.len() { "sessions-lost" } else { "other" }, format!("limit {} -> {}: {:?} -> {:?}", self.max_clients_cur, n, before.connected, after.connected));
                }
            }
            K_RESTART => {
                obs.count("fault.server_restart");
                self.incarnation += 1;
                self.server = NetcodeServer::new(ServerConfig {
                    current_time: Duration::from_millis(self.sv_ms),
                    max_clients: self.max_clients_ctor,
                    protocol_id: self.protocol_id,
                    public_addresses: self.public.clone(),
                    authentication: if self.secure { ServerAuthentication::Secure { private_key: self.server_key } } else { ServerAuthentication::Unsecure },
                });
                self.max_clients_cur = self.max_clients_ctor;
                self.max_ever_lowered = false;
                let ended: Vec<u64> = self.sessions.keys().copied().collect();
                for id in ended {
                    if let Some(s) = self.sessions.remove(&id) {
                        self.tokens[s.tid].sv_attempt += 1;
                    }
                    self.ev_connected.remove(&id);
                }
                for t in self.tokens.iter_mut() {
                    t.first_addr = None;
                    t.sv_attempt += 1;
                }
            }
            K_TELEPORT => {
                // sequence-length classes and large magnitudes without 2^30 steps
                let slot = op.a as usize % ns;
                let v = match op.c % 8 {
                    0 => 255,
                    1 => 256,
                    2 => 65_535,
                    3 => (1u64 << 24) - 2,
                    4 => (1u64 << 32) - 3,
                    5 => (1u64 << 40) + 7,
                    6 => (1u64 << 56) - 1,
                    _ => (1u64 << 62) + 5,
                };
                if op.b % 2 == 0 {
                    if let Some(c) = self.slots[slot].client.as_mut() {
                        if c.verif_sequence() < v {
                            c.verif_set_sequence(v);
                            obs.count("probe.sequence_teleport_client");
                        }
                    }
                } else if let Some(id) = self.sessions.values().find(|s| s.slot == Some(slot)).map(|s| s.client_id) {
                    // only forwards: going back would itself reuse nonces
                    let tid = self.sessions[&id].tid;
                    let scope = self.tokens[tid].sv_attempt;
                    let max_used = self.nonce_table.keys().filter(|k| k.0 == tid && k.1 == 1 && k.2 == scope).map(|k| k.3).max().unwrap_or(0);
                    if max_used < v && max_used < (1 << 62) {
                        self.server.verif_set_client_sequence(id, v);
                        obs.count("probe.sequence_teleport_server");
                    }
                }
            }
            K_JUNK | K_MUTATE | K_REPLAY | K_FORGEREQ | K_FORGERESP | K_FORGESESS | K_TAMPER | K_TOKENSURGERY | K_CROSSRESP | K_STALEHS | K_FLOODSTEAL | K_FORGEEXPIRY | K_REFRAME | K_STALERESP | K_TAGSQUAT => self.adversary_op(op, obs),
            _ => {}
        }
        for slot in 0..ns {
            self.note_client_state(slot, obs);
        }
        obs.count_by("oracle.C16.token_issue_roundtrip", std::mem::take(&mut self.token_roundtrips));
        for (p, o, d, t) in std::mem::take(&mut self.deferred) {
            obs.violate(&p, &o, &d, t);
        }
        if std::env::var("VERIF_DEBUG").is_ok() {
            let cl: Vec<String> = (0..ns)
                .map(|j| match self.client_snap(j) {
                    Some(c) => format!("{}:{}{}{:?}@{}({}ms)", j, if c.connected { "C" } else { "" }, if c.connecting { "c" } else { "" }, c.reason, self.slots[j].client.as_ref().unwrap().server_addr(), c.since_ms),
                    None => format!("{}:-", j),
                })
                .collect();
            eprintln!(
                "op {} {} {} {} {} | sv {}ms clients {:?} pending {:?} | {} | pools {:?}",
                OP_NAMES[op.k as usize], op.a, op.b, op.c, op.d, self.sv_ms, self.server.clients_id(), self.server.verif_pending(), cl.join(" "),
                self.slots.iter().map(|s| (s.c2s.len(), s.s2c.len())).collect::<Vec<_>>()
            );
        }
        self.check_table(obs);
    }
}
