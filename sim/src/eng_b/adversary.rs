//! Engine B: the on-path adversary. It owns legitimate tokens, sees every datagram, can replay, modify, forge under
//! keys it owns, spoof source addresses, and feed byte strings to the token parser.
use super::oracle::tname;
use super::*;
use renetcode::verif::Packet;

impl WorldB {
    fn pick_src(&self, sel: u64) -> SocketAddr {
        let n = self.slots.len() as u64 + 1;
        match sel % n {
            0 => self.adv_addr,
            k => self.slots[(k - 1) as usize].addr,
        }
    }

    /// A token whose keys the adversary legitimately holds.
    fn adv_token(&self, sel: u64) -> Option<usize> {
        let owned: Vec<usize> = self.tokens.iter().enumerate().filter(|(_, t)| t.adv_owned).map(|(i, _)| i).collect();
        if owned.is_empty() {
            None
        } else {
            Some(owned[sel as usize % owned.len()])
        }
    }

    fn adv_record(&mut self, bytes: Vec<u8>, src: SocketAddr, dst: SocketAddr, tid: Option<usize>, bogus: bool, obs: &mut Obs) -> usize {
        let ix = self.emit(bytes, src, dst, Producer::Adversary, tid, None, obs);
        self.ledger[ix].certainly_bogus = bogus;
        ix
    }

    /// Delivers ledger entry `ix` to `target` (0 = server, 1+j = client slot j) claiming source `src`.
    fn adv_deliver(&mut self, ix: usize, target: u64, src: SocketAddr, obs: &mut Obs) {
        let n = self.slots.len() as u64 + 1;
        match target % n {
            0 => self.deliver_to_server(ix, src, true, obs),
            k => self.deliver_to_client(ix, (k - 1) as usize, true, obs),
        }
    }

    pub fn adversary_op(&mut self, op: &Op, obs: &mut Obs) {
        let ns = self.slots.len();
        match op.k {
            K_JUNK => {
                let mut r = Rng::new(crate::prng::mix(&[op.c, op.d, 0x11]));
                let len = match op.c % 12 {
                    0 => 0,
                    1 => 1,
                    2 => 17,
                    3 => 18,
                    4 => 19,
                    5 => 26,
                    6 => 1078,
                    7 => 1400,
                    8 => 333,
                    _ => r.below(1401) as usize,
                };
                let mut b = vec![0u8; len];
                r.fill(&mut b);
                if !b.is_empty() {
                    // all 256 prefix bytes: packet type x announced sequence length
                    b[0] = (op.d % 256) as u8;
                    let seqlen = (b[0] >> 4) as usize;
                    match (op.d >> 8) % 4 {
                        0 => {
                            for x in b.iter_mut().skip(1).take(seqlen.min(8)) {
                                *x = 0xFF;
                            }
                        }
                        1 => {
                            for x in b.iter_mut().skip(1).take(seqlen.min(8)) {
                                *x = 0;
                            }
                        }
                        _ => {}
                    }
                }
                obs.count("fault.junk");
                obs.abs.u64(0x300 + (op.d % 256));
                let src = self.pick_src(op.b);
                let dst = if op.a % (ns as u64 + 1) == 0 { self.public[0] } else { self.slots[(op.a % (ns as u64 + 1) - 1) as usize].addr };
                let ix = self.adv_record(b, src, dst, None, true, obs);
                self.adv_deliver(ix, op.a, src, obs);
            }
            K_MUTATE => {
                if self.ledger.is_empty() {
                    return;
                }
                // prefer something in flight, else anything ever seen
                let slot = op.a as usize % ns;
                let dir = (op.b % 2) as usize;
                let pool = if dir == 0 { &self.slots[slot].c2s } else { &self.slots[slot].s2c };
                // only datagrams made by honest endpoints are mutated: mutating a mutation could undo it
                let from = if !pool.is_empty() {
                    pool[op.c as usize % pool.len()]
                } else {
                    let honest: Vec<usize> = self.ledger.iter().enumerate().filter(|(_, r)| !matches!(r.producer, Producer::Adversary)).map(|(i, _)| i).collect();
                    if honest.is_empty() {
                        return;
                    }
                    honest[op.c as usize % honest.len()]
                };
                let mut b = self.ledger[from].bytes.clone();
                if b.is_empty() {
                    return;
                }
                let ptype = self.ledger[from].ptype;
                let kind = op.d % 6;
                let p = (op.d / 6) as usize;
                let mut equivalent = false;
                match kind {
                    0 => {
                        let bit = p % (b.len() * 8);
                        b[bit / 8] ^= 1 << (bit % 8);
                        // the high nibble of a request's prefix byte carries no information
                        if ptype == T_REQUEST && bit / 8 == 0 && bit % 8 >= 4 {
                            equivalent = true;
                        }
                        if ptype == T_REQUEST && bit / 8 >= 1078 {
                            equivalent = true;
                        }
                    }
                    1 => {
                        let keep = p % b.len();
                        b.truncate(keep);
                    }
                    2 => {
                        let extra = 1 + p % 40;
                        for i in 0..extra {
                            b.push((p + i) as u8);
                        }
                        if ptype == T_REQUEST {
                            equivalent = true;
                        }
                        b.truncate(1400);
                    }
                    3 => {
                        // announce another sequence length
                        let newp = (b[0] & 0x0F) | (((p % 16) as u8) << 4);
                        if newp == b[0] {
                            b[0] ^= 0x10;
                        } else {
                            b[0] = newp;
                        }
                        if ptype == T_REQUEST {
                            equivalent = true;
                        }
                    }
                    4 => {
                        // all-ones sequence bytes
                        let n = (b[0] >> 4) as usize;
                        let before = b.clone();
                        for x in b.iter_mut().skip(1).take(n.min(8)) {
                            *x = 0xFF;
                        }
                        if ptype == T_REQUEST || b == before {
                            b[1 % before.len()] ^= 0x80;
                        }
                    }
                    _ => {
                        let pos = p % b.len();
                        b[pos] = b[pos].wrapping_add(1 + (p % 254) as u8);
                        if ptype == T_REQUEST && pos >= 1078 {
                            equivalent = true;
                        }
                        if ptype == T_REQUEST && pos == 0 && (b[0] & 0x0F) == 0 {
                            equivalent = true;
                        }
                    }
                }
                obs.count("fault.mutate");
                obs.count(&format!("fault.mutate_{}", tname(ptype)));
                obs.abs.u64(0x400 + kind * 8 + ptype as u64);
                let (src, dst, tid) = (self.ledger[from].src, self.ledger[from].dst, self.ledger[from].tid);
                let cf = self.ledger[from].challenge_for;
                let ix = self.adv_record(b, src, dst, tid, !equivalent, obs);
                if equivalent {
                    self.ledger[ix].challenge_for = cf;
                    self.ledger[ix].replayed = true;
                }
                let target = if self.is_server_addr(dst) { 0 } else { self.slot_of_addr(dst).map(|j| j as u64 + 1).unwrap_or(0) };
                self.adv_deliver(ix, target, src, obs);
            }
            K_TAGSQUAT => {
                // an on-path party copies an honest connection request that is still in flight, damages the sealed token but keeps
                // its last 16 bytes (the tag the server's token table is keyed by) and hands the copy over from another address
                // before the original arrives
                let slot = op.a as usize % ns;
                let cands: Vec<usize> = self.slots[slot]
                    .c2s
                    .iter()
                    .copied()
                    .filter(|&ix| self.ledger[ix].ptype == T_REQUEST && matches!(self.ledger[ix].producer, Producer::Client { .. }) && self.ledger[ix].bytes.len() >= 1078)
                    .collect();
                if cands.is_empty() {
                    return;
                }
                let from = cands[op.c as usize % cands.len()];
                let mut b = self.ledger[from].bytes.clone();
                let pos = 54 + (op.d as usize % 1008); // the sealed part without its tag: bytes 54..1062
                b[pos] ^= 1 << ((op.d / 1008) % 8);
                let (orig_src, dst, tid) = (self.ledger[from].src, self.ledger[from].dst, self.ledger[from].tid);
                let mut src = self.pick_src(op.b);
                if src == orig_src {
                    src = if self.adv_addr != orig_src { self.adv_addr } else { addr_v4(66, 66, 66, 68, 6668) };
                }
                obs.count("fault.tag_squat");
                obs.abs.u64(0x4F0);
                let ix = self.adv_record(b, src, dst, tid, true, obs);
                self.adv_deliver(ix, 0, src, obs);
            }
            K_REPLAY => {
                if self.ledger.is_empty() {
                    return;
                }
                let ix = op.a as usize % self.ledger.len();
                let orig_dst = self.ledger[ix].dst;
                let orig_src = self.ledger[ix].src;
                let target = match op.b % 4 {
                    0 | 1 => {
                        if self.is_server_addr(orig_dst) {
                            0
                        } else {
                            self.slot_of_addr(orig_dst).map(|j| j as u64 + 1).unwrap_or(0)
                        }
                    }
                    2 => 0,
                    _ => 1 + op.d % ns as u64,
                };
                let src = match op.c % 4 {
                    0 | 1 => orig_src,
                    _ => self.pick_src(op.d),
                };
                obs.count("fault.replay");
                if src != orig_src {
                    obs.count("fault.replay_from_other_address");
                }
                obs.abs.u64(0x500 + self.ledger[ix].ptype as u64);
                self.ledger[ix].replayed = true;
                self.adv_deliver(ix, target, src, obs);
            }
            K_FORGEREQ => {
                if self.tokens.is_empty() {
                    return;
                }
                let mut tid = op.a as usize % self.tokens.len();
                let src = self.pick_src(op.b);
                if op.c % 10 == 1 {
                    // the adversary obtains a token of its own from the backend (it is a legitimate user too)
                    let nids = self.cfg.get("nids").max(1);
                    let expire = self.cfg.get("expire").max(1);
                    tid = self.issue_token(1 + op.a % nids, 0, expire, 5, 0, 1);
                    self.tokens[tid].adv_owned = true;
                    obs.count("probe.adversary_obtained_own_token");
                }
                let pkt = Packet::connection_request_from_token(&self.tokens[tid].token);
                let mut buf = [0u8; 1400];
                let Ok(n) = pkt.encode(&mut buf, self.tokens[tid].token.protocol_id, None) else { return };
                let mut b = buf[..n].to_vec();
                let mut bogus = true;
                // regions: [0] prefix, [1..14) version, [14..22) protocol, [22..30) expiry, [30..54) xnonce, [54..1078) sealed data (last 16 = MAC)
                let kind = op.c % 10;
                let p = op.d as usize;
                match kind {
                    0 | 1 => bogus = false, // unmodified: valid token from a chosen address
                    2 => b[1 + p % 13] ^= 1 << (p % 8),
                    3 => b[14 + p % 8] ^= 1 << (p % 8),
                    4 => b[22 + p % 8] ^= 1 << (p % 8),
                    5 => b[30 + p % 24] ^= 1 << (p % 8),
                    6 => b[54 + p % 1008] ^= 1 << (p % 8),
                    7 => b[1062 + p % 16] ^= 1 << (p % 8),
                    8 => b.truncate(p % 1078),
                    _ => {
                        // expiry pushed into the future: AAD no longer matches
                        let e = u64::from_le_bytes(b[22..30].try_into().unwrap()).wrapping_add(1 + (p as u64 % 100_000));
                        b[22..30].copy_from_slice(&e.to_le_bytes());
                    }
                }
                obs.count("fault.forge_request");
                obs.abs.u64(0x600 + kind);
                let dst = self.public[0];
                let ix = self.adv_record(b, src, dst, Some(tid), bogus, obs);
                self.deliver_to_server(ix, src, true, obs);
            }
            K_FORGERESP => {
                if self.tokens.is_empty() || self.challenges_seen.is_empty() {
                    return;
                }
                // sealed under keys the adversary holds
                let Some(tid) = self.adv_token(op.a) else { return };
                let (tseq, mut tdata, cid, cinc) = self.challenges_seen[op.b as usize % self.challenges_seen.len()].clone();
                let src = self.pick_src(op.c);
                let mut bogus = false;
                if op.d % 4 == 3 {
                    let pos = (op.d / 4) as usize % tdata.len();
                    tdata[pos] ^= 1 << (op.d % 8);
                    bogus = true;
                }
                let mut td = [0u8; 300];
                td.copy_from_slice(&tdata);
                let pkt = Packet::Response { token_sequence: tseq, token_data: td };
                let key = self.tokens[tid].token.client_to_server_key;
                let seq = 1000 + op.d % 7;
                let mut buf = [0u8; 1400];
                let Ok(n) = pkt.encode(&mut buf, self.tokens[tid].token.protocol_id, Some((seq, &key))) else { return };
                obs.count("fault.forge_response");
                if self.tokens[tid].id != cid {
                    obs.count("fault.forge_response_cross_use");
                }
                let dst = self.public[0];
                let ix = self.adv_record(buf[..n].to_vec(), src, dst, Some(tid), bogus, obs);
                self.ledger[ix].challenge_for = Some((cid, cinc));
                self.deliver_to_server(ix, src, true, obs);
            }
            K_FLOODSTEAL => {
                // load on the table that binds tokens to addresses: 1500 other users present fresh valid tokens (fewer than the
                // table holds, so nothing may be forgotten), then a token holder presents a token of its own that is bound to one
                // of its addresses from another address and, if challenged there, completes the handshake
                if self.flooded {
                    return;
                }
                let connected = self.server.clients_id();
                let cands: Vec<usize> = (0..self.tokens.len())
                    .filter(|&i| {
                        let t = &self.tokens[i];
                        t.adv_owned && t.first_addr.is_some() && self.token_valid_now(i) && !connected.contains(&t.id) && t.issued_for_incarnation == self.incarnation
                    })
                    .collect();
                if cands.is_empty() {
                    return;
                }
                let tid = cands[op.a as usize % cands.len()];
                let x = self.tokens[tid].first_addr.unwrap();
                let y = if self.adv_addr != x { self.adv_addr } else { addr_v4(66, 66, 66, 67, 6667) };
                if self.sessions.values().any(|s| s.addr == y) {
                    return;
                }
                self.flooded = true;
                obs.count("fault.token_flood");
                let key = if self.secure { self.server_key } else { [0u8; 32] };
                let noise_src = addr_v4(10, 250, 0, 1, 7000);
                let now = Duration::from_millis(self.sv_ms);
                let mut buf = [0u8; 1400];
                for k in 0..1500u64 {
                    let Ok(token) = ConnectToken::generate(now, self.protocol_id, 30, 1_000_000 + k, 5, self.public.clone(), None, &key) else { continue };
                    let pkt = Packet::connection_request_from_token(&token);
                    if let Ok(n) = pkt.encode(&mut buf, self.protocol_id, None) {
                        let _ = self.server.process_packet(noise_src, &mut buf[..n]);
                    }
                }
                // the token, from the other address
                let pkt = Packet::connection_request_from_token(&self.tokens[tid].token);
                let Ok(n) = pkt.encode(&mut buf, self.tokens[tid].token.protocol_id, None) else { return };
                let dst = self.public[0];
                let ix = self.adv_record(buf[..n].to_vec(), y, dst, Some(tid), false, obs);
                let seen_before = self.challenges_seen.len();
                self.deliver_to_server(ix, y, true, obs);
                if self.challenges_seen.len() > seen_before && self.pend_model.get(&y).map(|p| p.0 == tid).unwrap_or(false) {
                    obs.count("probe.flooded_table_forgot_a_binding");
                    let (tseq, tdata, cid, cinc) = self.challenges_seen.last().cloned().unwrap();
                    let mut td = [0u8; 300];
                    td.copy_from_slice(&tdata);
                    let pkt = Packet::Response { token_sequence: tseq, token_data: td };
                    let ckey = self.tokens[tid].token.client_to_server_key;
                    let Ok(n) = pkt.encode(&mut buf, self.tokens[tid].token.protocol_id, Some((1, &ckey))) else { return };
                    let ix = self.adv_record(buf[..n].to_vec(), y, dst, Some(tid), false, obs);
                    self.ledger[ix].challenge_for = Some((cid, cinc));
                    self.deliver_to_server(ix, y, true, obs);
                }
            }
            K_FORGEEXPIRY => {
                // a token holder whose token runs out rewrites the clear-text expiry field of its own connection request (the
                // sealed part stays as issued). While the token is still valid and expires within six seconds it first presents
                // the genuine request (the server opens and remembers whatever it remembers about it), waits until the token
                // has expired, then presents the forgery from the same address and answers the challenge if there is one.
                let connected = self.server.clients_id();
                let cands: Vec<usize> = (0..self.tokens.len())
                    .filter(|&i| {
                        let t = &self.tokens[i];
                        t.adv_owned && t.key_ok && t.protocol_ok && t.lists_server && !connected.contains(&t.id) && t.issued_for_incarnation == self.incarnation
                    })
                    .collect();
                if cands.is_empty() {
                    return;
                }
                let tid = cands[op.a as usize % cands.len()];
                let src = self.tokens[tid].first_addr.unwrap_or(self.adv_addr);
                if self.sessions.values().any(|s| s.addr == src) || self.slot_of_addr(src).is_some() {
                    return;
                }
                let dst = self.public[0];
                let mut buf = [0u8; 1400];
                let left_ms = (self.tokens[tid].expire_ts * 1000).saturating_sub(self.sv_ms);
                if left_ms > 6000 {
                    return;
                }
                obs.count("fault.forge_expiry");
                if left_ms > 0 {
                    let pkt = Packet::connection_request_from_token(&self.tokens[tid].token);
                    let Ok(n) = pkt.encode(&mut buf, self.tokens[tid].token.protocol_id, None) else { return };
                    let ix = self.adv_record(buf[..n].to_vec(), src, dst, Some(tid), false, obs);
                    self.deliver_to_server(ix, src, true, obs);
                    self.tick_server(left_ms + 1000, false, obs);
                    if self.server.clients_id().contains(&self.tokens[tid].id) {
                        return;
                    }
                }
                obs.count("probe.expired_token_with_forged_expiry_presented");
                let mut forged = self.tokens[tid].token.clone();
                forged.expire_timestamp = self.sv_ms / 1000 + 1 + op.c % 100_000;
                let pkt = Packet::connection_request_from_token(&forged);
                let Ok(n) = pkt.encode(&mut buf, forged.protocol_id, None) else { return };
                let ix = self.adv_record(buf[..n].to_vec(), src, dst, Some(tid), true, obs);
                let seen_before = self.challenges_seen.len();
                self.deliver_to_server(ix, src, true, obs);
                if self.challenges_seen.len() > seen_before {
                    obs.count("probe.forged_expiry_was_challenged");
                    let (tseq, tdata, cid, cinc) = self.challenges_seen.last().cloned().unwrap();
                    let mut td = [0u8; 300];
                    td.copy_from_slice(&tdata);
                    let pkt = Packet::Response { token_sequence: tseq, token_data: td };
                    let ckey = self.tokens[tid].token.client_to_server_key;
                    let Ok(n) = pkt.encode(&mut buf, self.tokens[tid].token.protocol_id, Some((1, &ckey))) else { return };
                    let ix = self.adv_record(buf[..n].to_vec(), src, dst, Some(tid), false, obs);
                    self.ledger[ix].challenge_for = Some((cid, cinc));
                    self.deliver_to_server(ix, src, true, obs);
                }
            }
            K_REFRAME => {
                // a sealed datagram still in flight is re-framed: the prefix announces a longer packet number and that many
                // zero bytes are inserted behind the number's bytes — same type, same number, same ciphertext and tag, but not
                // the bytes the peer sent. Handed over ahead of the original, which stays in flight.
                let slot = op.a as usize % ns;
                let dir = (op.b % 2) as usize;
                let pool = if dir == 0 { &self.slots[slot].c2s } else { &self.slots[slot].s2c };
                let cands: Vec<usize> = pool.iter().copied().filter(|&ix| self.ledger[ix].ptype != T_REQUEST && !matches!(self.ledger[ix].producer, Producer::Adversary) && !self.ledger[ix].bytes.is_empty()).collect();
                if cands.is_empty() {
                    return;
                }
                let from = cands[op.c as usize % cands.len()];
                let mut b = self.ledger[from].bytes.clone();
                let n_old = (b[0] >> 4) as usize;
                if n_old >= 8 || b.len() < 1 + n_old {
                    return;
                }
                let n_add = 1 + (op.d as usize % (8 - n_old));
                b[0] = (b[0] & 0x0F) | (((n_old + n_add) as u8) << 4);
                for _ in 0..n_add {
                    b.insert(1 + n_old, 0);
                }
                obs.count("fault.reframe");
                obs.abs.u64(0x6B0 + self.ledger[from].ptype as u64);
                let (src, dst, tid) = (self.ledger[from].src, self.ledger[from].dst, self.ledger[from].tid);
                let ix = self.adv_record(b, src, dst, tid, true, obs);
                let target = if self.is_server_addr(dst) { 0 } else { self.slot_of_addr(dst).map(|j| j as u64 + 1).unwrap_or(0) };
                self.adv_deliver(ix, target, src, obs);
            }
            K_STALERESP => {
                // a token holder with two tokens of different lifetimes: it presents the longer-lived one from its address, then
                // the shorter-lived one from the same address (the half-open entry now belongs to that one), waits until the
                // shorter one has expired — the longer one has not — and only then answers the challenge it got for the shorter
                let life = self.cfg.get("expire").max(1);
                if life > 5 || self.tokens.is_empty() {
                    return;
                }
                let src = self.adv_addr;
                if self.sessions.values().any(|s| s.addr == src) {
                    return;
                }
                let nids = self.cfg.get("nids").max(1);
                let connected = self.server.clients_id();
                let Some(id) = (0..nids).map(|k| 1 + (op.a + k) % nids).find(|id| !connected.contains(id)) else { return };
                let a = self.issue_token(id, 0, life * 3, 5, 0, 1);
                let b = self.issue_token(id, 0, life, 5, 0, 1);
                self.tokens[a].adv_owned = true;
                self.tokens[b].adv_owned = true;
                let (long, short) = if self.tokens[a].expire_ts >= self.tokens[b].expire_ts { (a, b) } else { (b, a) };
                if self.tokens[long].expire_ts < self.tokens[short].expire_ts + 3 {
                    return;
                }
                obs.count("fault.stale_response_after_token_expiry");
                let dst = self.public[0];
                let mut buf = [0u8; 1400];
                for tid in [long, short] {
                    let pkt = Packet::connection_request_from_token(&self.tokens[tid].token);
                    let Ok(n) = pkt.encode(&mut buf, self.tokens[tid].token.protocol_id, None) else { return };
                    let ix = self.adv_record(buf[..n].to_vec(), src, dst, Some(tid), false, obs);
                    self.deliver_to_server(ix, src, true, obs);
                }
                if !self.pend_model.get(&src).map(|p| p.0 == short).unwrap_or(false) {
                    return;
                }
                let Some((tseq, tdata, cid, cinc)) = self.challenges_seen.last().cloned() else { return };
                let wait_ms = (self.tokens[short].expire_ts * 1000 + 1500).saturating_sub(self.sv_ms);
                self.tick_server(wait_ms, false, obs);
                let mut td = [0u8; 300];
                td.copy_from_slice(&tdata);
                let pkt = Packet::Response { token_sequence: tseq, token_data: td };
                let ckey = self.tokens[short].token.client_to_server_key;
                let Ok(n) = pkt.encode(&mut buf, self.tokens[short].token.protocol_id, Some((1, &ckey))) else { return };
                obs.count("probe.response_presented_after_its_token_expired");
                let ix = self.adv_record(buf[..n].to_vec(), src, dst, Some(short), false, obs);
                self.ledger[ix].challenge_for = Some((cid, cinc));
                self.deliver_to_server(ix, src, true, obs);
            }
            K_STALEHS => {
                // a handshake reply the server once sealed for this client's token (a challenge, a denial from a moment when
                // the server was full) reaches the client late, when it may long be connected
                let slot = op.a as usize % ns;
                let tid = self.slots[slot].tid;
                let cands: Vec<usize> = (0..self.ledger.len())
                    .filter(|&i| {
                        let r = &self.ledger[i];
                        r.tid == Some(tid) && matches!(r.producer, Producer::Server { .. }) && matches!(r.ptype, T_CHALLENGE | T_DENIED) && !r.certainly_bogus
                    })
                    .collect();
                if cands.is_empty() || self.slots[slot].client.is_none() {
                    return;
                }
                // denials first: they are the rarer kind
                let denied: Vec<usize> = cands.iter().copied().filter(|&i| self.ledger[i].ptype == T_DENIED).collect();
                let ix = if !denied.is_empty() && op.b % 2 == 0 { denied[(op.b / 2) as usize % denied.len()] } else { cands[(op.b / 2) as usize % cands.len()] };
                obs.count("fault.stale_handshake_reply");
                obs.abs.u64(0x690 + self.ledger[ix].ptype as u64);
                self.ledger[ix].replayed = true;
                let src = self.ledger[ix].src;
                self.adv_deliver(ix, slot as u64 + 1, src, obs);
            }
            K_CROSSRESP => {
                // a token holder that answers from an address it holds a half-open entry at, under that entry's keys, echoing a
                // challenge the server issued for somebody else (or for another of its own tokens)
                let mut entries: Vec<(SocketAddr, usize)> = self.pend_model.iter().map(|(a, p)| (*a, p.0)).filter(|(_, t)| self.tokens[*t].adv_owned).collect();
                entries.sort();
                if entries.is_empty() || self.challenges_seen.is_empty() {
                    return;
                }
                let (src, tid) = entries[op.a as usize % entries.len()];
                let inc = self.incarnation;
                let my_id = self.tokens[tid].id;
                let other: Vec<usize> = (0..self.challenges_seen.len()).filter(|&i| self.challenges_seen[i].3 == inc && self.challenges_seen[i].2 != my_id).collect();
                let pick = if other.is_empty() { op.b as usize % self.challenges_seen.len() } else { other[op.b as usize % other.len()] };
                let (tseq, tdata, cid, cinc) = self.challenges_seen[pick].clone();
                let mut td = [0u8; 300];
                td.copy_from_slice(&tdata);
                let pkt = Packet::Response { token_sequence: tseq, token_data: td };
                let key = self.tokens[tid].token.client_to_server_key;
                let seq = 1000 + op.d % 7;
                let mut buf = [0u8; 1400];
                let Ok(n) = pkt.encode(&mut buf, self.tokens[tid].token.protocol_id, Some((seq, &key))) else { return };
                obs.count("fault.cross_response");
                if cid != my_id {
                    obs.count("fault.cross_response_other_id");
                }
                obs.abs.u64(0x680);
                let dst = self.public[0];
                let ix = self.adv_record(buf[..n].to_vec(), src, dst, Some(tid), false, obs);
                self.ledger[ix].challenge_for = Some((cid, cinc));
                self.deliver_to_server(ix, src, true, obs);
            }
            K_FORGESESS => {
                if self.tokens.is_empty() {
                    return;
                }
                let Some(tid) = self.adv_token(op.a) else { return };
                let to_server = op.b % 4 != 3;
                let ptype = [T_KEEPALIVE, T_PAYLOAD, T_DISCONNECT, T_PAYLOAD, T_DENIED, T_CHALLENGE][(op.b / 4) as usize % 6];
                // the session (if any) this token currently has on the server, to aim sequence numbers at its window
                let sess = self.sessions.values().find(|s| s.tid == tid).map(|s| (s.client_id, s.addr, s.rx_highest.unwrap_or(0)));
                let head = if to_server { sess.map(|s| s.2).unwrap_or(0) } else { 0 };
                let seq = match op.c % 12 {
                    0 => head,
                    1 => head.wrapping_add(1),
                    2 => head.saturating_sub(255),
                    3 => head.saturating_sub(256),
                    4 => head.wrapping_add(255),
                    5 => head.wrapping_add(256),
                    6 => (head / 256).wrapping_add(1).wrapping_mul(256),
                    7 => 0,
                    8 => u64::MAX,
                    9 => u64::MAX - 256,
                    10 => (1u64 << 63).wrapping_add(head),
                    _ => head.wrapping_add(2 + (op.c / 12) % 600),
                };
                let wrong_protocol = op.d % 8 == 7;
                // (a protocol id that differs in one bit of any of its eight bytes)
                let protocol = if wrong_protocol { self.tokens[tid].token.protocol_id ^ (0x10u64 << (8 * ((op.d / 512) % 8))) } else { self.tokens[tid].token.protocol_id };
                self.payload_counter += 1;
                let body: Vec<u8> = {
                    let mut v = vec![0xADu8, tid as u8, 0xFE];
                    v.extend_from_slice(&self.payload_counter.to_le_bytes());
                    let extra = (op.d / 8) as usize % 64;
                    v.extend(std::iter::repeat(0x5A).take(extra));
                    v
                };
                let pkt = match ptype {
                    T_KEEPALIVE => Packet::KeepAlive { client_index: 0, max_clients: 0 },
                    T_PAYLOAD => Packet::Payload(&body),
                    T_DISCONNECT => Packet::Disconnect,
                    T_DENIED => Packet::ConnectionDenied,
                    _ => Packet::Challenge { token_sequence: 1, token_data: [7u8; 300] },
                };
                // source: the token's own session address (own traffic; only tokens of hostile slots, a real adversary does not
                // hold honest clients' keys), or another address (foreign keys for whoever lives there)
                let owner_hostile = true;
                let mut src = if to_server {
                    match (op.d % 3, sess) {
                        (0 | 1, Some(s)) if owner_hostile => s.1,
                        _ => self.pick_src(op.d / 3),
                    }
                } else {
                    self.public[0]
                };
                if to_server && !owner_hostile {
                    if let Some(s) = sess {
                        if s.1 == src {
                            src = self.adv_addr;
                        }
                    }
                }
                // cryptographically valid for whichever session holds these keys; certainly bogus only under a foreign protocol id
                let own_session = to_server && !wrong_protocol && sess.map(|s| s.1 == src).unwrap_or(false);
                let bogus = wrong_protocol;
                let tid = tid;
                // towards a client: keys the adversary holds, i.e. foreign keys for every client holding another token
                // (decided at delivery: the ledger entry may later be replayed to the holder of these keys)
                let key = if to_server { self.tokens[tid].token.client_to_server_key } else { self.tokens[tid].token.server_to_client_key };
                let mut buf = [0u8; 1400];
                let Ok(n) = pkt.encode(&mut buf, protocol, Some((seq, &key))) else { return };
                obs.count("fault.forge_session");
                obs.count(&format!("fault.forge_session_{}", tname(ptype)));
                if op.c % 12 >= 8 && op.c % 12 <= 9 {
                    obs.count("fault.forge_extreme_sequence");
                }
                obs.abs.u64(0x700 + (op.c % 12) * 8 + ptype as u64);
                let dst = if to_server { self.public[0] } else { self.slots[op.d as usize % ns].addr };
                let ix = self.adv_record(buf[..n].to_vec(), src, dst, Some(tid), bogus, obs);
                self.ledger[ix].sealed_c2s = to_server;
                let _ = own_session;
                if to_server && !wrong_protocol && ptype == T_PAYLOAD {
                    // a token owner speaking with its own keys: this is a generated payload of that client identity
                    let cid = self.tokens[tid].id;
                    let (slot, epoch) = self.slots.iter().enumerate().find(|(_, s)| s.tid == tid && s.epoch > 0).map(|(j, s)| (j, s.epoch)).unwrap_or((0, 0));
                    self.payloads.push(PayloadRec { bytes: body.clone(), from_server: false, slot, epoch, client_id: cid, tid, surfaced: 0, sess: 0, first_surfaced_in: None });
                    self.ledger[ix].payload = Some(self.payloads.len() - 1);
                }
                if to_server {
                    self.deliver_to_server(ix, src, true, obs);
                } else {
                    self.deliver_to_client(ix, op.d as usize % ns, true, obs);
                }
            }
            K_TAMPER => self.tamper_enum(op, obs),
            K_TOKENSURGERY => self.token_surgery(op, obs),
            _ => {}
        }
    }

    /// C17 oracle 2: every single-bit flip and every truncation of a datagram that is about to be delivered is offered
    /// to the live receiver first; none may have any effect, and the genuine datagram must still be accepted afterwards.
    fn tamper_enum(&mut self, op: &Op, obs: &mut Obs) {
        let ns = self.slots.len();
        let slot = op.a as usize % ns;
        let dir = (op.b % 2) as usize;
        let pool = if dir == 0 { self.slots[slot].c2s.clone() } else { self.slots[slot].s2c.clone() };
        if pool.is_empty() {
            return;
        }
        let idx = op.c as usize % pool.len();
        let from = pool[idx];
        let orig = self.ledger[from].bytes.clone();
        let (src, dst, tid, ptype) = (self.ledger[from].src, self.ledger[from].dst, self.ledger[from].tid, self.ledger[from].ptype);
        if dir == 0 && !self.is_server_addr(dst) {
            return;
        }
        obs.count("fault.tamper_enumeration");
        obs.count(&format!("fault.tamper_enumeration_{}", tname(ptype)));
        let scratch = self.adv_record(orig.clone(), src, dst, tid, true, obs);
        let before_violations = obs.violations.len();
        let mut trials = 0u64;
        let nbits = orig.len() * 8;
        // budget: at most ~12k trials per datagram; beyond that stride through the bits
        let stride = 1;
        let mut bit = 0;
        while bit < nbits {
            let skip = ptype == T_REQUEST && (bit / 8 == 0 && bit % 8 >= 4);
            if !skip {
                let mut b = orig.clone();
                b[bit / 8] ^= 1 << (bit % 8);
                self.ledger[scratch].bytes = b;
                self.tamper_trial(scratch, dir, slot, src, obs);
                trials += 1;
            }
            bit += stride;
        }
        for keep in 0..orig.len() {
            self.ledger[scratch].bytes = orig[..keep].to_vec();
            self.tamper_trial(scratch, dir, slot, src, obs);
            trials += 1;
        }
        obs.count_by("oracle.C17.tamper_trials", trials);
        // relabel inert-violations found by the enumeration as C17 (tamper evidence), keeping C07's own report too
        let new: Vec<(String, String, String)> = obs.violations[before_violations..]
            .iter()
            .filter(|v| v.prop == "C07" || v.prop == "C04")
            .map(|v| (v.oracle.clone(), v.disc.clone(), v.detail.clone()))
            .collect();
        for (o, d, det) in new {
            obs.violate("C17", &format!("tampered-datagram-accepted/{}", o), &d, det);
        }
        self.ledger[scratch].bytes = Vec::new();
        // the genuine datagram afterwards (normal delivery op; completeness oracles apply)
        self.apply_op(&Op::new(K_DELIVER, slot as u64, dir as u64, idx as u64, 0), obs);
    }

    fn tamper_trial(&mut self, scratch: usize, dir: usize, slot: usize, src: SocketAddr, obs: &mut Obs) {
        if dir == 0 {
            self.deliver_to_server(scratch, src, true, obs);
        } else {
            self.deliver_to_client(scratch, slot, true, obs);
        }
    }

    /// C07 (token parser) and C16 (token round trip): byte surgery on a genuine serialised ConnectToken.
    fn token_surgery(&mut self, op: &Op, obs: &mut Obs) {
        if self.tokens.is_empty() {
            return;
        }
        let tid = op.a as usize % self.tokens.len();
        let mut bytes: Vec<u8> = Vec::new();
        if self.tokens[tid].token.write(&mut bytes).is_err() {
            obs.violate("C16", "token-write-fails", "write", format!("token {}", tid));
            return;
        }
        // layout: id 8 | version 13 | protocol 8 | create 8 | expire 8 | xnonce 24 | private 1024 | timeout 4 | naddr 4 | addrs.. | keys 64
        const NADDR: usize = 8 + 13 + 8 + 8 + 8 + 24 + 1024 + 4;
        let kind = op.b % 10;
        let p = op.c as usize;
        obs.count("fault.token_surgery");
        obs.abs.u64(0x800 + kind);
        let mut expect_same = false;
        match kind {
            0 => expect_same = true, // untouched: must round trip
            1 => bytes[NADDR..NADDR + 4].copy_from_slice(&0u32.to_le_bytes()),
            2 => bytes[NADDR..NADDR + 4].copy_from_slice(&33u32.to_le_bytes()),
            3 => bytes[NADDR..NADDR + 4].copy_from_slice(&u32::MAX.to_le_bytes()),
            4 => bytes[NADDR + 4] = 3 + (p % 250) as u8, // unknown address type
            5 => {
                // leading NONE entry: keep the count, turn the first address into type 0 and drop its bytes
                let t = bytes[NADDR + 4];
                let alen = if t == 1 { 6 } else { 18 };
                bytes[NADDR + 4] = 0;
                bytes.drain(NADDR + 5..NADDR + 5 + alen);
            }
            6 => {
                // create after expire
                let e = u64::from_le_bytes(bytes[37..45].try_into().unwrap());
                bytes[29..37].copy_from_slice(&(e + 1 + p as u64 % 1000).to_le_bytes());
            }
            7 => {
                let keep = p % bytes.len();
                bytes.truncate(keep);
            }
            8 => {
                let bit = p % (bytes.len() * 8);
                bytes[bit / 8] ^= 1 << (bit % 8);
            }
            _ => {
                // all counts zero and nothing after
                bytes[NADDR..NADDR + 4].copy_from_slice(&0u32.to_le_bytes());
                bytes.truncate(NADDR + 4 + 64);
            }
        }
        obs.count("oracle.C07.token_parse");
        let parsed = ConnectToken::read(&mut std::io::Cursor::new(&bytes));
        let Ok(tok) = parsed else {
            if expect_same {
                obs.violate("C16", "genuine-token-unreadable", "read", format!("token {}", tid));
            }
            return;
        };
        obs.count("probe.surgery_token_parses");
        if expect_same && tok != self.tokens[tid].token {
            obs.violate("C16", "token-write-read-differs", "roundtrip", format!("token {}", tid));
        }
        // C16: a byte string that decodes re-encodes to bytes that decode to the same value
        obs.count("oracle.C16.token_roundtrip");
        let mut again = Vec::new();
        if tok.write(&mut again).is_ok() {
            match ConnectToken::read(&mut std::io::Cursor::new(&again)) {
                Ok(t2) if t2 == tok => {}
                Ok(_) => obs.violate("C16", "token-decode-encode-decode-unstable", &format!("surgery-{}", kind), format!("token {}", tid)),
                Err(e) => obs.violate("C16", "token-reencoded-unreadable", &format!("surgery-{}", kind), format!("{}", e)),
            }
        }
        // C07: whatever parsed must be usable without a panic
        let client = NetcodeClient::new(Duration::from_millis(0), ClientAuthentication::Secure { connect_token: tok });
        if let Ok(mut c) = client {
            for dt in [0u64, 100, 250, 1000, 20_000] {
                let _ = c.update(Duration::from_millis(dt));
            }
            let mut junk = [0u8; 64];
            let _ = c.process_packet(&mut junk);
        }
    }
}
