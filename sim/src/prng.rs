//! xoshiro256** seeded through splitmix64. Own implementation so that the stream never changes under us.

#[derive(Clone, Debug)]
pub struct Rng {
    s: [u64; 4],
}

pub fn splitmix(x: &mut u64) -> u64 {
    *x = x.wrapping_add(0x9E37_79B9_7F4A_7C15);
    let mut z = *x;
    z = (z ^ (z >> 30)).wrapping_mul(0xBF58_476D_1CE4_E5B9);
    z = (z ^ (z >> 27)).wrapping_mul(0x94D0_49BB_1331_11EB);
    z ^ (z >> 31)
}

/// Mixes several integers into one seed (order-sensitive).
pub fn mix(parts: &[u64]) -> u64 {
    let mut h: u64 = 0x243F_6A88_85A3_08D3;
    for p in parts {
        let mut x = h ^ p.wrapping_mul(0x9E37_79B9_7F4A_7C15);
        h = splitmix(&mut x);
    }
    h
}

pub fn hash_str(s: &str) -> u64 {
    let mut h: u64 = 0xcbf2_9ce4_8422_2325;
    for b in s.bytes() {
        h ^= b as u64;
        h = h.wrapping_mul(0x0000_0100_0000_01B3);
    }
    h
}

impl Rng {
    pub fn new(seed: u64) -> Self {
        let mut x = seed;
        let s = [splitmix(&mut x), splitmix(&mut x), splitmix(&mut x), splitmix(&mut x)];
        Rng { s }
    }

    pub fn next(&mut self) -> u64 {
        let result = self.s[1].wrapping_mul(5).rotate_left(7).wrapping_mul(9);
        let t = self.s[1] << 17;
        self.s[2] ^= self.s[0];
        self.s[3] ^= self.s[1];
        self.s[1] ^= self.s[2];
        self.s[0] ^= self.s[3];
        self.s[2] ^= t;
        self.s[3] = self.s[3].rotate_left(45);
        result
    }

    /// Uniform in 0..n (n > 0). Slight modulo bias is irrelevant here.
    pub fn below(&mut self, n: u64) -> u64 {
        if n == 0 {
            0
        } else {
            self.next() % n
        }
    }

    pub fn range(&mut self, lo: u64, hi_incl: u64) -> u64 {
        lo + self.below(hi_incl - lo + 1)
    }

    pub fn chance(&mut self, num: u64, den: u64) -> bool {
        self.below(den) < num
    }

    pub fn pick<'a, T>(&mut self, v: &'a [T]) -> &'a T {
        &v[self.below(v.len() as u64) as usize]
    }

    /// Index drawn proportionally to the weights (all-zero → 0).
    pub fn weighted(&mut self, w: &[u32]) -> usize {
        let total: u64 = w.iter().map(|x| *x as u64).sum();
        if total == 0 {
            return 0;
        }
        let mut r = self.below(total);
        for (i, x) in w.iter().enumerate() {
            if r < *x as u64 {
                return i;
            }
            r -= *x as u64;
        }
        w.len() - 1
    }

    pub fn fill(&mut self, buf: &mut [u8]) {
        for chunk in buf.chunks_mut(8) {
            let v = self.next().to_le_bytes();
            chunk.copy_from_slice(&v[..chunk.len()]);
        }
    }
}

/// FNV-1a running hash used for event logs.
#[derive(Clone, Copy, Debug)]
pub struct Fnv(pub u64);

impl Default for Fnv {
    fn default() -> Self {
        Fnv(0xcbf2_9ce4_8422_2325)
    }
}

impl Fnv {
    pub fn bytes(&mut self, b: &[u8]) {
        let mut h = self.0;
        for x in b {
            h ^= *x as u64;
            h = h.wrapping_mul(0x0000_0100_0000_01B3);
        }
        self.0 = h;
    }
    pub fn u64(&mut self, v: u64) {
        self.bytes(&v.to_le_bytes());
    }
}
