//! Engine C: operations, generator, heal phase and oracles of the full stack.
use super::*;
use renet::DisconnectReason;

fn payload(slot: u64, dir: u64, ch: u64, n: u64, len: usize) -> Bytes {
    let mut v = vec![0u8; len];
    let mut r = Rng::new(crate::prng::mix(&[slot, dir, ch, n, len as u64]));
    r.fill(&mut v);
    let hdr = [0xC7u8, slot as u8, (dir as u8) << 4 | ch as u8, n as u8, (n >> 8) as u8, (n >> 16) as u8, len as u8, (len >> 8) as u8];
    for (i, h) in hdr.iter().enumerate() {
        if i < v.len() {
            v[i] = *h;
        }
    }
    Bytes::from(v)
}

impl WorldC {
    /// Moves what the endpoints sent since the last call into the relay pools (per link, order within a link preserved).
    fn collect_outbox(&mut self, obs: &mut Obs) {
        let out: Vec<(SocketAddr, SocketAddr, Vec<u8>)> = std::mem::take(&mut self.net.0.borrow_mut().outbox);
        // the server transport walks its clients in hash order: normalise by destination slot (stable)
        let mut keyed: Vec<(usize, usize, (SocketAddr, SocketAddr, Vec<u8>))> = Vec::new();
        for (i, (from, to, bytes)) in out.into_iter().enumerate() {
            let slot_key = if from == self.server_addr { self.slot_of_addr(to).unwrap_or(usize::MAX) } else { self.slot_of_addr(from).unwrap_or(usize::MAX) };
            keyed.push((slot_key, i, (from, to, bytes)));
        }
        keyed.sort_by_key(|k| (k.0, k.1));
        for (_, _, (from, to, bytes)) in keyed {
            obs.count("oracle.C13.netcode_size");
            if bytes.len() > 1400 {
                obs.violate("C13", "netcode-datagram-too-long", "transport", format!("{} bytes", bytes.len()));
            }
            obs.log.bytes(&bytes);
            self.ledger.push((bytes, from, to));
            let ix = self.ledger.len() - 1;
            let m = match self.slot_of_addr(from) {
                Some(j) if to == self.server_addr => {
                    let connected = self.slots[j].client.as_ref().map(|(c, _)| c.is_connected()).unwrap_or(false);
                    self.slots[j].emitted_n += 1;
                    (Some(j), self.slots[j].epoch, self.slots[j].emitted_n, connected, 0)
                }
                _ => (None, 0, 0, false, 0),
            };
            self.meta.push(m);
            if from == self.server_addr {
                if let Some(j) = self.slot_of_addr(to) {
                    self.slots[j].to_client.push(ix);
                }
            } else if let Some(j) = self.slot_of_addr(from) {
                if to == self.server_addr {
                    self.slots[j].to_server.push(ix);
                }
            }
        }
    }

    fn enqueue(&mut self, to: SocketAddr, bytes: Vec<u8>, from: SocketAddr) {
        if from == self.server_addr {
            if let Some(j) = self.slot_of_addr(to) {
                self.slots[j].last_from_server_ms = self.slots[j].clock_ms;
            }
        }
        self.net.0.borrow_mut().inbox.entry(to).or_default().push_back((bytes, from));
    }

    fn tick_client(&mut self, j: usize, dt: u64, obs: &mut Obs) {
        obs.sim_ms += dt;
        let d = Duration::from_millis(dt);
        let s = &mut self.slots[j];
        s.clock_ms += dt;
        // what waits in the client's socket is read by this update, at the clock this update sets: a datagram from the server's
        // address refreshes the receive timer then, not when the relay handed it over
        if self.net.0.borrow().inbox.get(&s.addr).map(|q| q.iter().any(|(_, from)| *from == self.server_addr)).unwrap_or(false) {
            s.last_from_server_ms = s.clock_ms;
        }
        let Some((client, transport)) = s.client.as_mut() else { return };
        client.update(d);
        let nc_disc_before = transport.disconnect_reason().is_some();
        let msg_disc_before = client.is_disconnected();
        let r1 = transport.update(d, client);
        let r2 = transport.send_packets(client);
        if let Err(e) = &r1 {
            s.last_transport_err = Some(format!("{}", e));
        }
        let _ = r2;
        obs.count("op.tick_client");
        // C20 on the client: after NetcodeClientTransport::update both layers agree on whether the session has ended
        if r1.is_ok() || !matches!(r1, Err(renet_netcode::NetcodeTransportError::IO(_))) {
            obs.count("oracle.C20.client_lockstep");
            // a disconnect that existed in one layer before the update is pushed to the other layer by it (one decided inside
            // the update, by a packet it processed or a timer it advanced, is pushed across by the next one)
            let msg_disc = client.is_disconnected();
            let nc_disc = transport.disconnect_reason().is_some();
            if (msg_disc_before && !nc_disc) || (nc_disc_before && !msg_disc) {
                obs.violate(
                    "C20",
                    "client-layers-disagree-after-update",
                    if msg_disc { "message-layer-disconnected-netcode-not" } else { "netcode-disconnected-message-layer-not" },
                    format!("slot {} message layer {:?} netcode {:?}", j, client.disconnect_reason(), transport.disconnect_reason()),
                );
            }
        }
        // C20 / C18 through the full stack: only datagrams from the server's own address keep a client alive; when none was
        // handed to its socket for longer than the timeout (plus one update of slack) the client has given up
        if matches!(r1, Err(renet_netcode::NetcodeTransportError::IO(_))) {
            // an update cut short by a socket error did not advance the handshake layer's clock: that time does not count
            self.slots[j].last_from_server_ms += dt;
        }
        {
            let s = &self.slots[j];
            if let Some((c, _)) = s.client.as_ref() {
                obs.count("oracle.C20.silent_server_times_out");
                let silent = s.clock_ms.saturating_sub(s.last_from_server_ms);
                if !c.is_disconnected() && silent > self.timeout_s * 1000 + dt + 1000 {
                    obs.violate("C20", "silent-server-not-timed-out", "client", format!("slot {}: nothing from the server's address for {} ms, timeout {} s", j, silent, self.timeout_s));
                }
            }
        }
        self.collect_outbox(obs);
        self.observe_client(j, obs);
    }

    fn tick_server(&mut self, dt: u64, obs: &mut Obs) {
        obs.sim_ms += dt;
        let d = Duration::from_millis(dt);
        self.sv_ms += dt;
        // C20 / C18 through the full stack: a client whose fresh session datagram is already in the server's socket when the
        // update starts is not timed out by that update (nothing else may end its session either unless somebody decided to)
        let recv_fault = self.net.0.borrow().recv_err.contains_key(&self.server_addr);
        let waiting: Vec<(bool, u32)> = self
            .slots
            .iter()
            .map(|s| (s.fresh_waiting && !recv_fault && self.transport.client_addr(s.id).is_some() && s.decided_side.is_none() && !s.tainted, s.server_disc_events))
            .collect();
        self.server.update(d);
        let r = self.transport.update(d, &mut self.server);
        obs.count("op.tick_server");
        // every update reads the socket until it is empty: nobody's datagram waits for a later update because of what somebody
        // else sent (a zero-length datagram, junk, a burst) — unless a receive error was injected
        if r.is_ok() && !recv_fault {
            obs.count("oracle.C20.update_drains_socket");
            let left = self.net.0.borrow().inbox.get(&self.server_addr).map(|q| q.len()).unwrap_or(0);
            if left > 0 {
                obs.violate("C20", "update-left-datagrams-unread", "server", format!("{} datagram(s) still in the server's socket after a successful update", left));
            }
        }
        // the hosted in-memory client is served by the application itself, like any listen server does
        if let Some(lc) = self.local.as_mut() {
            if !lc.is_disconnected() {
                let _ = self.server.process_local_client(LOCAL_ID, lc);
                for ch in 0..3u8 {
                    while lc.receive_message(ch).is_some() {}
                    while self.server.receive_message(LOCAL_ID, ch).is_some() {}
                }
            }
        }
        self.pump_events(obs);
        for (j, (was_waiting, disc_before)) in waiting.iter().enumerate() {
            if *was_waiting && r.is_ok() {
                obs.count("oracle.C20.waiting_datagram_keeps_session");
                let s = &self.slots[j];
                if s.server_disc_events > *disc_before && !s.app_disconnected_client && !s.app_disconnected_server && !s.tainted {
                    obs.violate("C20", "healthy-session-ended-with-its-datagram-waiting", "server", format!("slot {} id {}: the update of {} ms ended the session although a fresh datagram was in the socket", j, s.id, dt));
                }
            }
            if self.slots[j].fresh_waiting && !recv_fault && r.is_ok() {
                self.slots[j].server_heard_ms = Some(self.sv_ms);
            }
            self.slots[j].fresh_waiting = false;
        }
        if r.is_ok() {
            self.check_lockstep(obs);
        } else {
            // a hard socket error makes update return early: the layers are reconciled by the next successful update
            obs.count("probe.server_update_returned_error");
        }
        self.transport.send_packets(&mut self.server);
        self.collect_outbox(obs);
    }

    /// C20: right after NetcodeServerTransport::update the message layer and the handshake layer name the same clients.
    fn check_lockstep(&mut self, obs: &mut Obs) {
        obs.count("oracle.C20.lockstep");
        let mut renet_ids = self.server.clients_id();
        renet_ids.sort();
        // the hosted in-memory client belongs to the message layer only; it stays until the application removes it
        if let Some(lc) = self.local.as_ref() {
            if !lc.is_disconnected() {
                obs.count("oracle.C20.local_client_untouched");
                if !renet_ids.contains(&LOCAL_ID) {
                    obs.violate("C20", "transport-removed-local-client", "after-update", format!("renet {:?}", renet_ids));
                }
            }
        }
        renet_ids.retain(|id| *id != LOCAL_ID);
        let known: Vec<u64> = (1..self.next_id).collect();
        let netcode_ids: Vec<u64> = known.iter().copied().filter(|id| self.transport.client_addr(*id).is_some()).collect();
        if renet_ids != netcode_ids {
            obs.violate("C20", "layers-disagree-on-connected-clients", "after-update", format!("renet {:?} netcode {:?}", renet_ids, netcode_ids));
        }
        if self.transport.connected_clients() != netcode_ids.len() {
            obs.violate("C20", "layers-disagree-on-connected-clients", "count", format!("connected_clients {} ids {:?}", self.transport.connected_clients(), netcode_ids));
        }
        let mut lingering = self.server.disconnections_id();
        lingering.retain(|id| *id != LOCAL_ID);
        if !lingering.is_empty() {
            obs.violate("C20", "disconnected-connection-left-in-message-layer", "after-update", format!("{:?}", lingering));
        }
        let ev: Vec<u64> = self.ev_connected.iter().filter(|(id, c)| **c && **id != LOCAL_ID).map(|(id, _)| *id).collect();
        if ev != renet_ids {
            obs.violate("C20", "event-stream-disagrees-with-connected-clients", "after-update", format!("events {:?} renet {:?}", ev, renet_ids));
        }
        for id in &netcode_ids {
            if let Some(j) = self.slot_of_id(*id) {
                if !self.slots[j].tainted && self.transport.client_addr(*id) != Some(self.slots[j].addr) {
                    obs.violate("C20", "client-address-mismatch", "client_addr", format!("id {}", id));
                }
            }
        }
    }

    fn pump_events(&mut self, obs: &mut Obs) {
        while let Some(ev) = self.server.get_event() {
            obs.count("oracle.C20.events");
            match ev {
                ServerEvent::ClientConnected { client_id } => {
                    let was = self.ev_connected.insert(client_id, true).unwrap_or(false);
                    if was {
                        obs.violate("C20", "connect-reported-twice", "events", format!("id {}", client_id));
                    }
                    if (client_id == 0 || client_id >= self.next_id) && !(client_id == LOCAL_ID && self.local.is_some()) {
                        obs.violate("C20", "connect-with-unknown-id", "events", format!("id {}", client_id));
                    }
                    if let Some(j) = self.slot_of_id(client_id) {
                        self.slots[j].server_heard_ms = Some(self.sv_ms);
                        self.slots[j].server_conn_events += 1;
                        self.slots[j].server_seen_connected = true;
                        if self.slots[j].server_conn_events > 1 {
                            // a second session for the same token: only a replayed request + response can do that (known finding C04)
                            obs.count("probe.second_session_for_same_token");
                            self.slots[j].tainted = true;
                        }
                    }
                    obs.count("probe.session_established");
                    if self.cfg.get("unsecure") == 1 {
                        obs.count("probe.unsecure_session_established");
                    }
                    if client_id == LOCAL_ID {
                        obs.count("probe.local_client_hosted");
                    }
                }
                ServerEvent::ClientDisconnected { client_id, reason } => {
                    let was = self.ev_connected.insert(client_id, false).unwrap_or(false);
                    if !was {
                        obs.violate("C20", "disconnect-without-connect", "events", format!("id {}", client_id));
                    }
                    obs.count(&format!("server_event_disconnect.{:?}", reason).replace(' ', ""));
                    if let Some(j) = self.slot_of_id(client_id) {
                        // nobody decided to end it and the server read an authentic datagram of this session (at the latest the
                        // response it accepted) no longer than the timeout ago: neither a timeout nor anything else is due
                        let s = &self.slots[j];
                        if let Some(heard) = s.server_heard_ms {
                            if reason == DisconnectReason::Transport && s.decided_side.is_none() && !s.app_disconnected_client && !s.app_disconnected_server && !s.tainted {
                                obs.count("oracle.C20.no_early_timeout");
                                if self.sv_ms - heard <= self.timeout_s * 1000 {
                                    obs.violate("C20", "healthy-session-ended-before-its-timeout", "server", format!("slot {} id {}: authentic datagram read {} ms ago, timeout {} s", j, s.id, self.sv_ms - heard, self.timeout_s));
                                }
                            }
                        }
                        self.slots[j].server_disc_events += 1;
                        if self.slots[j].decided_at_ms.is_none() {
                            self.slots[j].decided_at_ms = Some(self.sv_ms);
                        }
                        self.judge_reason(j, reason, "server", obs);
                    }
                }
            }
        }
    }

    /// Interference by the relay must never surface as a message-layer error: only application decisions and the
    /// handshake layer (timeouts, peer disconnects) end sessions.
    fn judge_reason(&mut self, j: usize, reason: DisconnectReason, side: &str, obs: &mut Obs) {
        obs.count("oracle.C20.disconnect_cause");
        let ok = match reason {
            DisconnectReason::Transport => true,
            DisconnectReason::DisconnectedByClient => self.slots[j].app_disconnected_client,
            DisconnectReason::DisconnectedByServer => self.slots[j].app_disconnected_server,
            _ => false,
        };
        if !ok && !self.slots[j].tainted {
            obs.violate(
                "C20",
                "interference-ended-session-in-message-layer",
                &format!("{}/{:?}", side, reason).replace(' ', ""),
                format!("slot {} id {}", j, self.slots[j].id),
            );
        }
    }

    fn observe_client(&mut self, j: usize, obs: &mut Obs) {
        let s = &mut self.slots[j];
        let Some((client, transport)) = s.client.as_ref() else { return };
        if client.is_connected() && !s.client_seen_connected {
            s.client_seen_connected = true;
            obs.count("probe.client_connected");
        }
        // status mirroring: the message layer never says connected while the handshake layer is not
        obs.count("oracle.C20.client_status");
        let nc_disc = transport.disconnect_reason();
        // a refusal belongs to the handshake: once a client has been connected, a refusal that turns up late (the relay held it
        // back, or replays it) is no reason to end its session
        if s.client_seen_connected && matches!(nc_disc, Some(renet_netcode::NetcodeDisconnectReason::ConnectionDenied)) && !s.tainted {
            obs.violate("C20", "healthy-session-ended-by-stale-handshake-reply", "client/ConnectionDenied", format!("slot {} id {}", j, s.id));
            s.tainted = true;
        }
        if client.is_connected() && nc_disc.is_some() {
            // allowed only until the next transport.update, which we have just run in tick_client
        }
        if let Some(r) = client.disconnect_reason() {
            if s.decided_at_ms.is_none() {
                s.decided_at_ms = Some(self.sv_ms);
                obs.count(&format!("client_disconnect.{:?}", r).replace(' ', ""));
                let id = s.id;
                let _ = id;
                self.judge_reason(j, r, "client", obs);
            }
        }
    }

    fn submit(&mut self, j: usize, dir: usize, ch: usize, len: usize, obs: &mut Obs) {
        self.submit_n += 1;
        let bytes = payload(j as u64, dir as u64, ch as u64, self.submit_n, len);
        let id = self.slots[j].id;
        let accepted = if dir == 0 {
            let Some((client, _)) = self.slots[j].client.as_mut() else { return };
            let ok = client.is_connected() && client.can_send_message(ch as u8, len);
            if ok {
                client.send_message(ch as u8, bytes.clone());
            }
            ok
        } else {
            let ok = self.server.is_connected(id) && self.server.can_send_message(id, ch as u8, len);
            if ok {
                self.server.send_message(id, ch as u8, bytes.clone());
            }
            ok
        };
        if accepted {
            obs.count("op.submit");
            let l = &mut self.slots[j].chans[dir][ch];
            l.submitted.push(bytes.clone());
            l.obtained.push(0);
            l.by_content.entry(bytes).or_default().push(l.submitted.len() - 1);
        }
    }

    fn on_obtain(&mut self, j: usize, dir: usize, ch: usize, b: Bytes, obs: &mut Obs) {
        obs.log.u64(b.len() as u64);
        if self.slots[j].tainted {
            return;
        }
        let l = &mut self.slots[j].chans[dir][ch];
        match l.kind {
            1 => {
                obs.count("oracle.C20.ordered_prefix");
                let k = l.next_ordered;
                if k < l.submitted.len() && l.submitted[k] == b {
                    l.obtained[k] += 1;
                    l.next_ordered += 1;
                } else {
                    obs.violate("C20", "channel-guarantee-broken-end-to-end", "ReliableOrdered/not-a-prefix", format!("slot {} dir {} position {}", j, dir, k));
                    self.slots[j].tainted = true;
                }
            }
            kind => {
                obs.count(if kind == 2 { "oracle.C20.unordered_once" } else { "oracle.C20.unreliable_once" });
                let name = if kind == 2 { "ReliableUnordered" } else { "Unreliable" };
                match l.by_content.get(&b).and_then(|v| v.iter().find(|&&i| l.obtained[i] == 0).copied()) {
                    Some(i) => l.obtained[i] += 1,
                    None => {
                        let disc = if l.by_content.contains_key(&b) { "obtained-twice" } else { "never-submitted" };
                        // netcode's replay protection drops duplicated datagrams, so even unreliable messages arrive at most once
                        obs.violate("C20", "channel-guarantee-broken-end-to-end", &format!("{}/{}", name, disc), format!("slot {} dir {} len {}", j, dir, b.len()));
                        self.slots[j].tainted = true;
                    }
                }
            }
        }
    }

    fn recv(&mut self, j: usize, dir: usize, obs: &mut Obs) {
        let id = self.slots[j].id;
        for ch in 0..3usize {
            loop {
                let m = if dir == 0 {
                    self.server.receive_message(id, ch as u8)
                } else {
                    match self.slots[j].client.as_mut() {
                        Some((c, _)) => c.receive_message(ch as u8),
                        None => None,
                    }
                };
                match m {
                    Some(b) => self.on_obtain(j, dir, ch, b, obs),
                    None => break,
                }
            }
        }
    }

    fn deliver(&mut self, j: usize, dir: usize, idx: usize, keep: bool, obs: &mut Obs) {
        let n = if dir == 0 { self.slots[j].to_server.len() } else { self.slots[j].to_client.len() };
        if n == 0 {
            return;
        }
        let idx = idx % n;
        if idx > 0 {
            obs.count("fault.reorder");
        }
        let ix = if keep {
            obs.count("fault.dup");
            if dir == 0 {
                self.slots[j].to_server[idx]
            } else {
                self.slots[j].to_client[idx]
            }
        } else if dir == 0 {
            self.slots[j].to_server.remove(idx)
        } else {
            self.slots[j].to_client.remove(idx)
        };
        let (bytes, from, to) = self.ledger[ix].clone();
        obs.count("op.deliver");
        obs.abs.u64(0x900 + dir as u64);
        // a session datagram of the current client object, newer than anything handed over before and never handed over itself:
        // the server will accept it whenever it reads its socket
        let (mslot, mepoch, n, connected, times) = self.meta[ix];
        if dir == 0 && mslot == Some(j) && mepoch == self.slots[j].epoch && connected && times == 0 && n > self.slots[j].newest_handed {
            self.slots[j].fresh_waiting = true;
        }
        if mslot == Some(j) && mepoch == self.slots[j].epoch {
            self.slots[j].newest_handed = self.slots[j].newest_handed.max(n);
        }
        self.meta[ix].4 += 1;
        self.enqueue(to, bytes, from);
    }

    pub fn apply_op(&mut self, op: &Op, obs: &mut Obs) {
        obs.log.u64(op.k as u64);
        obs.log.u64(op.a);
        obs.log.u64(op.b);
        obs.log.u64(op.c);
        obs.log.u64(op.d);
        obs.abs.u64(op.k as u64);
        let ns = self.slots.len();
        match op.k {
            K_TICKCLIENT => self.tick_client(op.a as usize % ns, op.b, obs),
            K_TICKSERVER => self.tick_server(op.a, obs),
            K_DELIVER => self.deliver(op.a as usize % ns, (op.b % 2) as usize, op.c as usize, op.d % 2 == 1, obs),
            K_DROP => {
                let j = op.a as usize % ns;
                let pool = if op.b % 2 == 0 { &mut self.slots[j].to_server } else { &mut self.slots[j].to_client };
                if !pool.is_empty() {
                    let i = op.c as usize % pool.len();
                    pool.remove(i);
                    obs.count("fault.drop");
                    if self.slots[j].decided_side.is_some() {
                        self.slots[j].lost_after_decision[(op.b % 2) as usize] = true;
                    }
                }
            }
            K_DELIVERALL => {
                let j = op.a as usize % ns;
                let dir = (op.b % 2) as usize;
                loop {
                    let n = if dir == 0 { self.slots[j].to_server.len() } else { self.slots[j].to_client.len() };
                    if n == 0 {
                        break;
                    }
                    self.deliver(j, dir, 0, false, obs);
                }
            }
            K_SUBMIT => self.submit(op.a as usize % ns, (op.b % 2) as usize, (op.c % 3) as usize, op.d as usize, obs),
            K_BROADCAST => {
                // a broadcast is a submission to every connected client
                let ch = (op.a % 3) as usize;
                for j in 0..ns {
                    self.submit(j, 1, ch, op.b as usize, obs);
                }
            }
            K_RECV => {
                for j in 0..ns {
                    self.recv(j, 0, obs);
                    self.recv(j, 1, obs);
                }
            }
            K_DISCONNECT => {
                let j = op.b as usize % ns;
                let id = self.slots[j].id;
                obs.count(&format!("op.disconnect_{}", op.a % 5));
                match op.a % 5 {
                    0 => {
                        if self.server.is_connected(id) {
                            self.slots[j].app_disconnected_server = true;
                            if self.slots[j].decided_side.is_none() {
                                self.slots[j].decided_side = Some(1);
                                let client_connected = self.slots[j].client.as_ref().map(|(c, _)| c.is_connected()).unwrap_or(false);
                                self.slots[j].decision_clean = self.slots[j].to_client.is_empty() && client_connected;
                            }
                        }
                        self.server.disconnect(id);
                    }
                    1 => {
                        let server_had = self.transport.client_addr(id).is_some();
                        let s = &mut self.slots[j];
                        if let Some((c, t)) = s.client.as_mut() {
                            if !c.is_disconnected() {
                                s.app_disconnected_client = true;
                                if s.decided_side.is_none() {
                                    s.decided_side = Some(0);
                                    // (a handshake layer that has already timed out, unnoticed by the message layer until the next
                                    // update, has no session to close any more: the server learns by its own timeout)
                                    s.decision_clean = s.to_server.is_empty() && server_had && t.disconnect_reason().is_none();
                                }
                            }
                            c.disconnect();
                        }
                    }
                    2 => {
                        let server_had = self.transport.client_addr(id).is_some();
                        let s = &mut self.slots[j];
                        if let Some((c, t)) = s.client.as_mut() {
                            if t.disconnect_reason().is_none() && !c.is_disconnected() && s.decided_side.is_none() {
                                s.decided_side = Some(0);
                                s.decision_clean = s.to_server.is_empty() && server_had;
                            }
                            t.disconnect();
                            self.collect_outbox(obs);
                        }
                    }
                    3 => {
                        for k in 0..ns {
                            if self.transport.client_addr(self.slots[k].id).is_some() {
                                self.slots[k].app_disconnected_server = true;
                            }
                        }
                        self.transport.disconnect_all(&mut self.server);
                        self.pump_events(obs);
                        self.collect_outbox(obs);
                        // "disconnects all connected clients ... use this when closing": nothing may be left in either layer
                        obs.count("oracle.C20.disconnect_all_complete");
                        let left: Vec<u64> = (1..self.next_id).filter(|id| self.transport.client_addr(*id).is_some()).collect();
                        if self.transport.connected_clients() != 0 || !left.is_empty() {
                            obs.violate("C20", "disconnect-all-left-sessions", "netcode-layer", format!("still connected: {:?}", left));
                        }
                        let remote_left = self.server.clients_id().iter().chain(self.server.disconnections_id().iter()).any(|id| *id != LOCAL_ID);
                        if remote_left {
                            obs.violate("C20", "disconnect-all-left-sessions", "message-layer", format!("connected {:?} disconnected-but-present {:?}", self.server.clients_id(), self.server.disconnections_id()));
                        }
                    }
                    _ => {
                        for k in 0..ns {
                            if self.server.is_connected(self.slots[k].id) {
                                self.slots[k].app_disconnected_server = true;
                            }
                        }
                        self.server.disconnect_all();
                        // the application closes its own in-memory client itself
                        if let Some(lc) = self.local.as_mut() {
                            self.server.disconnect_local_client(LOCAL_ID, lc);
                        }
                    }
                }
            }
            K_NEWCLIENT => {
                let j = op.a as usize % ns;
                if self.slots[j].client.is_some() {
                    obs.count("fault.client_crash_restart");
                }
                self.new_client(j);
            }
            K_CRASH => {
                let j = op.a as usize % ns;
                if self.slots[j].client.take().is_some() {
                    obs.count("fault.client_crash");
                }
            }
            K_STALEREPLY => {
                // a handshake reply the server once sent to this client (a challenge, a denial from a moment when it was full)
                // arrives again, possibly long after the client connected
                let j = op.a as usize % ns;
                let to = self.slots[j].addr;
                let cands: Vec<usize> = (0..self.ledger.len())
                    .filter(|&i| self.ledger[i].1 == self.server_addr && self.ledger[i].2 == to && !self.ledger[i].0.is_empty() && matches!(self.ledger[i].0[0] & 0xF, 1 | 2))
                    .collect();
                if cands.is_empty() {
                    return;
                }
                let denied: Vec<usize> = cands.iter().copied().filter(|&i| self.ledger[i].0[0] & 0xF == 1).collect();
                let ix = if !denied.is_empty() && op.b % 2 == 0 { denied[(op.b / 2) as usize % denied.len()] } else { cands[(op.b / 2) as usize % cands.len()] };
                obs.count("fault.stale_handshake_reply");
                let (bytes, from, to) = self.ledger[ix].clone();
                self.meta[ix].4 += 1;
                self.enqueue(to, bytes, from);
            }
            K_SETMAX => {
                // the application moves the client limit at run time: nobody who is connected is affected by that
                let n = 1 + (op.a % 4) as usize;
                obs.count("op.set_max_clients");
                let before: Vec<u64> = (1..self.next_id).filter(|id| self.transport.client_addr(*id).is_some()).collect();
                self.transport.set_max_clients(n);
                let after: Vec<u64> = (1..self.next_id).filter(|id| self.transport.client_addr(*id).is_some()).collect();
                obs.count("oracle.C20.limit_change_keeps_sessions");
                if before != after {
                    obs.violate("C20", "limit-change-dropped-sessions", "netcode-layer", format!("limit {}: {:?} -> {:?}", n, before, after));
                }
            }
            K_SPOOFPORT => {
                // the relay takes a datagram that is on its way to a client off the wire and hands it over under another source
                // port of the server's host (the genuine copy is lost): the client only listens to its server's address
                let j = op.a as usize % ns;
                if self.slots[j].to_client.is_empty() {
                    return;
                }
                let idx = op.b as usize % self.slots[j].to_client.len();
                let ix = self.slots[j].to_client.remove(idx);
                let (bytes, from, to) = self.ledger[ix].clone();
                let spoofed = SocketAddr::new(from.ip(), from.port().wrapping_add(1 + (op.c % 3) as u16));
                obs.count("fault.spoofed_source_port");
                if self.slots[j].decided_side.is_some() {
                    self.slots[j].lost_after_decision[1] = true;
                }
                self.enqueue(to, bytes, spoofed);
            }
            K_REJOIN => {
                // a crashed client comes back from another address under the same identity; whatever its old socket sent may
                // still be in flight, and the server may still hold its old session or half-open entry
                let donor = op.a as usize % ns;
                let taker = op.b as usize % ns;
                let id = self.slots[donor].id;
                if donor == taker || id == 0 || self.slots[donor].client.is_some() {
                    return;
                }
                if self.slots[taker].client.is_some() {
                    obs.count("fault.client_crash_restart");
                }
                obs.count("fault.rejoin_from_other_address");
                let interference = self.transport.client_addr(id).is_some() || !self.slots[donor].to_server.is_empty() || !self.slots[donor].to_client.is_empty();
                self.slots[donor].id = 0;
                self.new_client_as(taker, Some(id));
                // events, messages and addresses of the old session (or of a half-open entry, or of datagrams still waiting in
                // a socket) are indistinguishable from the new one's by id: the per-slot clauses are not judged for this
                // identity, the global lock-step clauses (same clients in both layers, counts, events) still are
                self.slots[taker].tainted = true;
                if interference {
                    obs.count("probe.rejoin_while_old_session_or_datagrams_alive");
                }
            }
            K_MUTATE => {
                let j = op.a as usize % ns;
                let dir = (op.b % 2) as usize;
                let pool = if dir == 0 { &self.slots[j].to_server } else { &self.slots[j].to_client };
                if pool.is_empty() {
                    return;
                }
                let ix = pool[op.c as usize % pool.len()];
                let (mut bytes, from, to) = self.ledger[ix].clone();
                if bytes.is_empty() {
                    return;
                }
                let p = (op.d / 3) as usize;
                match op.d % 3 {
                    0 => {
                        let bit = p % (bytes.len() * 8);
                        // bits 4..7 of a connection request's prefix byte carry no information: leave them alone
                        let bit = if bytes[0] & 0xF == 0 && bit < 8 { 8 + bit } else { bit };
                        bytes[bit / 8] ^= 1 << (bit % 8);
                    }
                    1 => {
                        let keep = p % bytes.len();
                        bytes.truncate(keep);
                    }
                    _ => {
                        let pos = 1 + p % (bytes.len().max(2) - 1);
                        if pos < bytes.len() {
                            bytes[pos] = bytes[pos].wrapping_add(1 + (p % 200) as u8);
                        }
                    }
                }
                obs.count("fault.corrupt");
                self.enqueue(to, bytes, from);
            }
            K_REPLAY => {
                if self.ledger.is_empty() {
                    return;
                }
                let rix = op.a as usize % self.ledger.len();
                let (bytes, from, to) = self.ledger[rix].clone();
                self.meta[rix].4 += 1;
                // a replayed datagram may be the first copy of a newer one to arrive: what the pool still holds from further back
                // than the replay window is then no longer "fresh"
                if let (Some(j), ep, n, ..) = self.meta[rix] {
                    if ep == self.slots[j].epoch {
                        self.slots[j].newest_handed = self.slots[j].newest_handed.max(n);
                    }
                }
                obs.count("fault.replay");
                let from = if op.b % 4 == 3 { self.slots[op.c as usize % ns].addr } else { from };
                self.enqueue(to, bytes, from);
            }
            K_SOCKERR => {
                let who = op.a as usize % (ns + 1);
                let addr = if who == 0 { self.server_addr } else { self.slots[who - 1].addr };
                let kind = match op.c % 4 {
                    0 => io::ErrorKind::WouldBlock,
                    1 => io::ErrorKind::Interrupted,
                    2 => io::ErrorKind::ConnectionReset,
                    _ => io::ErrorKind::PermissionDenied,
                };
                obs.count(&format!("fault.socket_error_{}_{:?}", if op.b % 2 == 0 { "send" } else { "recv" }, kind));
                let mut st = self.net.0.borrow_mut();
                if op.b % 2 == 0 {
                    let peer = if who == 0 { self.slots[op.d as usize % ns].addr } else { self.server_addr };
                    st.send_err.insert((addr, peer), kind);
                } else {
                    st.recv_err.insert(addr, kind);
                }
            }
            _ => {}
        }
    }

    pub fn gen(&mut self, rng: &mut Rng) -> Op {
        if let Some(op) = self.warm_queue.pop_front() {
            return op;
        }
        let ns = self.slots.len() as u64;
        let j = rng.below(ns) as usize;
        let dir = rng.below(2) as usize;
        let loss = self.cfg.get("loss") as u32;
        let dup = self.cfg.get("dup");
        let in_flight = if dir == 0 { self.slots[j].to_server.len() } else { self.slots[j].to_client.len() };
        // tickclient tickserver deliver drop deliverall submit broadcast recv disconnect newclient mutate replay sockerr crash
        let mut w: [u32; 14] = [25, 18, 40, 0, 4, 18, 2, 8, 0, 1, 0, 2, 0, 0];
        w[3] = (40 * loss) / (100 - loss.min(90));
        if in_flight == 0 {
            w[2] = 2;
            w[3] = 0;
        }
        w[10] = self.cfg.get("corrupt") as u32;
        w[12] = self.cfg.get("sockerr") as u32;
        if self.cfg.get("appdisc") == 1 {
            w[8] = 2;
            w[13] = 1;
        }
        let dt_menu = [0u64, 16, 16, 16, 33, 50, 100, 100, 250, 250, 500, 1000];
        if rng.chance(1, 50) {
            return Op::new(K_STALEREPLY, j as u64, rng.below(16), 0, 0);
        }
        if self.cfg.get("setmax") == 1 && rng.chance(1, 40) {
            return Op::new(K_SETMAX, rng.below(4), 0, 0, 0);
        }
        if self.cfg.get("spoof") == 1 && !self.slots[j].to_client.is_empty() && rng.chance(1, 3) {
            return Op::new(K_SPOOFPORT, j as u64, 0, rng.below(3), 0);
        }
        if ns > 1 && rng.chance(1, 10) {
            if let Some(donor) = (0..ns as usize).find(|&k| self.slots[k].client.is_none() && self.slots[k].id != 0) {
                let taker = (donor + 1 + rng.below(ns - 1) as usize) % ns as usize;
                return Op::new(K_REJOIN, donor as u64, taker as u64, 0, 0);
            }
        }
        match rng.weighted(&w) {
            0 => Op::new(K_TICKCLIENT, j as u64, *rng.pick(&dt_menu), 0, 0),
            1 => Op::new(K_TICKSERVER, *rng.pick(&dt_menu), 0, 0, 0),
            2 => {
                let idx = match self.cfg.get("reorder") {
                    0 => 0,
                    1 => rng.below(in_flight.max(1) as u64),
                    _ => {
                        if rng.chance(1, 2) {
                            in_flight.saturating_sub(1) as u64
                        } else {
                            0
                        }
                    }
                };
                Op::new(K_DELIVER, j as u64, dir as u64, idx, if dup > 0 && rng.below(100) < dup { 1 } else { 0 })
            }
            3 => Op::new(K_DROP, j as u64, dir as u64, rng.below(in_flight.max(1) as u64), 0),
            4 => Op::new(K_DELIVERALL, j as u64, dir as u64, 0, 0),
            5 => Op::new(K_SUBMIT, j as u64, dir as u64, rng.below(3), *rng.pick(&[0u64, 1, 8, 100, 500, 1199, 1200, 1201, 2500, 6000])),
            6 => Op::new(K_BROADCAST, rng.below(3), *rng.pick(&[1u64, 64, 1300]), 0, 0),
            7 => Op::new(K_RECV, 0, 0, 0, 0),
            8 => Op::new(K_DISCONNECT, rng.below(5), j as u64, 0, 0),
            9 => Op::new(K_NEWCLIENT, j as u64, 0, 0, 0),
            10 => Op::new(K_MUTATE, j as u64, dir as u64, rng.below(in_flight.max(1) as u64), rng.next() >> 20),
            11 => Op::new(K_REPLAY, rng.next() >> 20, rng.below(4), rng.below(ns), 0),
            12 => Op::new(K_SOCKERR, rng.below(ns + 1), rng.below(2), rng.below(4), rng.below(ns)),
            _ => Op::new(K_CRASH, j as u64, 0, 0, 0),
        }
    }

    fn round(&mut self, dt: u64, obs: &mut Obs) {
        let ns = self.slots.len();
        for j in 0..ns {
            self.apply_op(&Op::new(K_TICKCLIENT, j as u64, dt, 0, 0), obs);
        }
        self.apply_op(&Op::new(K_TICKSERVER, dt, 0, 0, 0), obs);
        for j in 0..ns {
            self.apply_op(&Op::new(K_DELIVERALL, j as u64, 0, 0, 0), obs);
            self.apply_op(&Op::new(K_DELIVERALL, j as u64, 1, 0, 0), obs);
        }
        self.apply_op(&Op::new(K_RECV, 0, 0, 0, 0), obs);
        if let Ok(v) = std::env::var("VERIF_DEBUG_SLOT") {
            let j: usize = v.parse().unwrap_or(0);
            let s = &self.slots[j];
            eprintln!(
                "round: slot {} client {:?} since_client {:?} server_since {:?} pools {} {}",
                j,
                s.client.as_ref().map(|(c, t)| (c.is_connected(), t.disconnect_reason())),
                s.client.as_ref().map(|(_, t)| t.time_since_last_received_packet()),
                self.transport.time_since_last_received_packet(s.id),
                s.to_server.len(),
                s.to_client.len()
            );
        }
    }

    pub fn run_epilogue(&mut self, obs: &mut Obs) {
        let ns = self.slots.len();
        {
            let mut st = self.net.0.borrow_mut();
            st.send_err.clear();
            st.recv_err.clear();
        }
        // heal: clean network. A disconnect decided anywhere ends the session on both sides within timeout + slack;
        // sessions alive on both sides deliver all their reliable traffic.
        let rounds = (self.timeout_s * 1000 + 3000) / 100;
        // socket errors armed in the random phase may have swallowed the single disconnect datagram
        let sock_faults = self.net.0.borrow().send_err_fired + self.net.0.borrow().recv_err_fired > 0 || self.cfg.get("sockerr") > 0;
        for r in 0..rounds {
            self.round(100, obs);
            if r == 9 {
                // one second of clean network: a disconnect decided by the application on either side has reached the other
                // side through the disconnect datagram (unless that datagram was lost; then only the timeout is owed)
                for j in 0..ns {
                    let s = &self.slots[j];
                    let Some(side) = s.decided_side else { continue };
                    if s.tainted || sock_faults || s.lost_after_decision[side] || s.client.is_none() || !s.decision_clean {
                        continue;
                    }
                    obs.count("oracle.C20.disconnect_propagates_promptly");
                    let id = s.id;
                    let server_has = self.server.is_connected(id) || self.transport.client_addr(id).is_some();
                    let client_alive = s.client.as_ref().map(|(c, t)| !c.is_disconnected() || t.disconnect_reason().is_none()).unwrap_or(false);
                    if side == 0 && server_has && self.timeout_s >= 2 {
                        obs.violate("C20", "disconnect-not-propagated-to-other-side", "client-decided/server-still-has-session", format!("slot {} id {} after 1 s of clean network", j, id));
                    }
                    if side == 1 && client_alive && self.timeout_s >= 2 {
                        obs.violate("C20", "disconnect-not-propagated-to-other-side", "server-decided/client-still-connected", format!("slot {} id {} after 1 s of clean network", j, id));
                    }
                }
            }
        }
        obs.count_by("fault.socket_error_fired", self.net.0.borrow().send_err_fired + self.net.0.borrow().recv_err_fired);
        if std::env::var("VERIF_DEBUG").is_ok() {
            for j in 0..ns {
                let s = &self.slots[j];
                eprintln!(
                    "slot {} id {} client {:?} server_renet_connected {} netcode_addr {:?} since {:?} client_clock {} sv {} err {:?}",
                    j,
                    s.id,
                    s.client.as_ref().map(|(c, t)| (c.is_connected(), c.disconnect_reason(), t.disconnect_reason())),
                    self.server.is_connected(s.id),
                    self.transport.client_addr(s.id),
                    self.transport.time_since_last_received_packet(s.id),
                    s.clock_ms,
                    self.sv_ms,
                    s.last_transport_err
                );
            }
        }
        for j in 0..ns {
            let id = self.slots[j].id;
            let server_has = self.server.is_connected(id) || self.transport.client_addr(id).is_some();
            let client_state = self.slots[j].client.as_ref().map(|(c, t)| (c.is_connected(), c.is_disconnected(), t.disconnect_reason()));
            if self.slots[j].tainted {
                // a second session for one token (duplicated or replayed request + response, known finding C04): the client
                // object still holds the first session's replay window and starves; both ends need their own timeouts
                obs.count("epilogue.agreement_skipped_second_session_of_token");
                continue;
            }
            obs.count("oracle.C20.both_sides_agree_after_heal");
            match client_state {
                Some((connected, disconnected, _)) => {
                    if connected && !server_has {
                        obs.violate("C20", "session-ended-on-one-side-only", "client-still-connected", format!("slot {} id {} after {} ms of clean network", j, id, rounds * 100));
                    }
                    if disconnected && server_has {
                        obs.violate("C20", "session-ended-on-one-side-only", "server-still-connected", format!("slot {} id {} after {} ms of clean network", j, id, rounds * 100));
                    }
                    if connected && server_has && !self.slots[j].tainted {
                        obs.count("oracle.C20.reliable_delivered_after_heal");
                        for dir in 0..2 {
                            for ch in 1..3 {
                                let l = &self.slots[j].chans[dir][ch];
                                if l.obtained.iter().any(|o| *o == 0) {
                                    obs.violate(
                                        "C20",
                                        "channel-guarantee-broken-end-to-end",
                                        if l.kind == 1 { "ReliableOrdered/not-delivered-after-heal" } else { "ReliableUnordered/not-delivered-after-heal" },
                                        format!("slot {} dir {} ch {}: {} of {} missing", j, dir, ch, l.obtained.iter().filter(|o| **o == 0).count(), l.obtained.len()),
                                    );
                                }
                            }
                        }
                    }
                }
                None => {
                    // crashed client: the server must have timed the session out by now
                    if server_has {
                        obs.violate("C20", "session-ended-on-one-side-only", "crashed-client-not-timed-out", format!("slot {} id {}", j, id));
                    }
                }
            }
            if self.slots[j].server_disc_events > self.slots[j].server_conn_events {
                obs.violate("C20", "disconnect-reported-more-often-than-connect", "events", format!("slot {}", j));
            }
        }
    }
}
