//! Engine C: the real renet_netcode transports (NetcodeServerTransport + RenetServer, NetcodeClientTransport +
//! RenetClient) over a simulated UdpSocket (hook H7) with an in-path relay that drops, duplicates, reorders,
//! replays and corrupts datagrams, plus socket-call faults. OS randomness is seeded (hook H5).
use crate::core::{Cfg, Obs, Op, World};
use crate::prng::Rng;
use renet::{Bytes, ChannelConfig, ConnectionConfig, RenetClient, RenetServer, SendType, ServerEvent};
use renet_netcode::verif_net::{self, UdpSocket, VerifNet};
use renet_netcode::{ClientAuthentication, ConnectToken, NetcodeClientTransport, NetcodeServerTransport, ServerAuthentication, ServerConfig};
use std::cell::RefCell;
use std::collections::{BTreeMap, BTreeSet, HashMap, VecDeque};
use std::io;
use std::net::{IpAddr, Ipv4Addr, SocketAddr};
use std::rc::Rc;
use std::time::Duration;

mod run;

pub const OP_NAMES: &[&str] = &[
    "TickClient", "TickServer", "Deliver", "Drop", "DeliverAll", "Submit", "Broadcast", "Recv", "Disconnect", "NewClient", "Mutate", "Replay",
    "SockErr", "CrashClient", "Rejoin", "SpoofPort", "SetMaxClients", "StaleReply",
];
pub const K_TICKCLIENT: u8 = 0;
pub const K_TICKSERVER: u8 = 1;
pub const K_DELIVER: u8 = 2;
pub const K_DROP: u8 = 3;
pub const K_DELIVERALL: u8 = 4;
pub const K_SUBMIT: u8 = 5;
pub const K_BROADCAST: u8 = 6;
pub const K_RECV: u8 = 7;
pub const K_DISCONNECT: u8 = 8;
pub const K_NEWCLIENT: u8 = 9;
pub const K_MUTATE: u8 = 10;
pub const K_REPLAY: u8 = 11;
pub const K_SOCKERR: u8 = 12;
pub const K_CRASH: u8 = 13;
pub const K_REJOIN: u8 = 14;
pub const K_SPOOFPORT: u8 = 15;
pub const K_SETMAX: u8 = 16;
pub const K_STALEREPLY: u8 = 17;

pub const T0_SECS: u64 = 500;

/// The simulated network behind every verif_net::UdpSocket of this thread.
#[derive(Default)]
pub struct NetState {
    pub inbox: HashMap<SocketAddr, VecDeque<(Vec<u8>, SocketAddr)>>,
    pub outbox: Vec<(SocketAddr, SocketAddr, Vec<u8>)>,
    /// armed send failures, keyed by (socket, destination): the server transport walks its clients in hash order, so
    /// "the next send of this socket" would not be a deterministic choice
    pub send_err: HashMap<(SocketAddr, SocketAddr), io::ErrorKind>,
    pub recv_err: HashMap<SocketAddr, io::ErrorKind>,
    pub recv_err_fired: u64,
    pub send_err_fired: u64,
}

pub struct SimNet(pub RefCell<NetState>);

impl VerifNet for SimNet {
    fn send_to(&self, from: SocketAddr, buf: &[u8], to: SocketAddr) -> io::Result<usize> {
        let mut st = self.0.borrow_mut();
        if let Some(kind) = st.send_err.remove(&(from, to)) {
            st.send_err_fired += 1;
            return Err(io::Error::new(kind, "simulated send_to failure"));
        }
        st.outbox.push((from, to, buf.to_vec()));
        Ok(buf.len())
    }
    fn recv_from(&self, at: SocketAddr, buf: &mut [u8]) -> io::Result<(usize, SocketAddr)> {
        let mut st = self.0.borrow_mut();
        if let Some(kind) = st.recv_err.remove(&at) {
            st.recv_err_fired += 1;
            return Err(io::Error::new(kind, "simulated recv_from failure"));
        }
        match st.inbox.get_mut(&at).and_then(|q| q.pop_front()) {
            Some((bytes, from)) => {
                let n = bytes.len().min(buf.len());
                buf[..n].copy_from_slice(&bytes[..n]);
                Ok((n, from))
            }
            None => Err(io::Error::new(io::ErrorKind::WouldBlock, "empty")),
        }
    }
}

pub struct ChanLedger {
    pub kind: u8, // 0 unreliable, 1 ordered, 2 unordered
    pub submitted: Vec<Bytes>,
    pub obtained: Vec<u32>,
    pub next_ordered: usize,
    pub by_content: HashMap<Bytes, Vec<usize>>,
}

pub struct Slot {
    pub addr: SocketAddr,
    pub id: u64,
    pub client: Option<(RenetClient, NetcodeClientTransport)>,
    pub epoch: u32,
    pub clock_ms: u64,
    pub to_server: Vec<usize>,   // ledger indexes in flight
    pub to_client: Vec<usize>,
    pub chans: [Vec<ChanLedger>; 2], // [0] client->server, [1] server->client ; per session (reset on new client)
    pub app_disconnected_client: bool,
    pub app_disconnected_server: bool,
    pub decided_at_ms: Option<u64>,
    pub client_seen_connected: bool,
    pub server_seen_connected: bool,
    pub server_disc_events: u32,
    pub server_conn_events: u32,
    pub tainted: bool,
    pub last_transport_err: Option<String>,
    /// a datagram of this direction was lost/withheld after a disconnect was decided (then only the timeout path is owed)
    pub lost_after_decision: [bool; 2],
    pub decided_side: Option<usize>, // 0 = client side decided first, 1 = server side
    /// at decision time the peer had the session and nothing older was in flight towards it (nothing can overtake the disconnect)
    pub decision_clean: bool,
    /// client-to-server datagrams emitted in this epoch / newest emission number handed to the server so far
    pub emitted_n: u64,
    pub newest_handed: u64,
    /// a fresh session datagram of this client sits unread in the server's socket
    pub fresh_waiting: bool,
    /// server clock of the last update that certainly read an authentic datagram of this session (the response that was
    /// accepted, a fresh session datagram): a lower bound of the server's receive timer for it
    pub server_heard_ms: Option<u64>,
    /// client clock when a datagram carrying the server's address as source was last handed to this client's socket
    pub last_from_server_ms: u64,
}

pub struct WorldC {
    pub cfg: Cfg,
    pub net: Rc<SimNet>,
    pub server: RenetServer,
    pub transport: NetcodeServerTransport,
    pub server_addr: SocketAddr,
    pub protocol_id: u64,
    pub key: [u8; 32],
    pub sv_ms: u64,
    pub slots: Vec<Slot>,
    pub ledger: Vec<(Vec<u8>, SocketAddr, SocketAddr)>, // bytes, from, to
    /// per ledger entry: (slot, epoch, emission number within the epoch, sent by a netcode-connected client, times handed over)
    pub meta: Vec<(Option<usize>, u32, u64, bool, u32)>,
    pub ev_connected: BTreeMap<u64, bool>,
    pub submit_n: u64,
    pub timeout_s: u64,
    pub next_id: u64,
    pub warm_queue: VecDeque<Op>,
    /// an in-memory client hosted by the same RenetServer (a listen server's own player); it has no netcode session
    pub local: Option<RenetClient>,
}

pub const LOCAL_ID: u64 = 1 << 40;

pub fn make_world(cfg: &Cfg) -> Box<dyn World> {
    Box::new(WorldC::new(cfg))
}

pub fn conn_config() -> ConnectionConfig {
    let chans = vec![
        ChannelConfig { channel_id: 0, max_memory_usage_bytes: 5 * 1024 * 1024, send_type: SendType::Unreliable },
        ChannelConfig { channel_id: 1, max_memory_usage_bytes: 5 * 1024 * 1024, send_type: SendType::ReliableUnordered { resend_time: Duration::from_millis(200) } },
        ChannelConfig { channel_id: 2, max_memory_usage_bytes: 5 * 1024 * 1024, send_type: SendType::ReliableOrdered { resend_time: Duration::from_millis(100) } },
    ];
    ConnectionConfig { available_bytes_per_tick: 60_000, server_channels_config: chans.clone(), client_channels_config: chans }
}

fn fresh_ledgers() -> [Vec<ChanLedger>; 2] {
    let mk = || {
        [0u8, 2, 1]
            .iter()
            .map(|k| ChanLedger { kind: *k, submitted: Vec::new(), obtained: Vec::new(), next_ordered: 0, by_content: HashMap::new() })
            .collect::<Vec<_>>()
    };
    [mk(), mk()]
}

impl Drop for WorldC {
    fn drop(&mut self) {
        verif_net::install(None);
        renetcode::verif_rng::install(None);
    }
}

impl WorldC {
    pub fn new(cfg: &Cfg) -> WorldC {
        let mut sut_rng = Rng::new(cfg.get("sutseed") ^ 0xC0DE_C0DE);
        renetcode::verif_rng::install(Some(Box::new(move |buf: &mut [u8]| sut_rng.fill(buf))));
        renet::verif::set_hash_seed(cfg.get("sutseed") ^ 0x4A5);
        let net = Rc::new(SimNet(RefCell::new(NetState::default())));
        verif_net::install(Some(net.clone()));
        let server_addr = SocketAddr::new(IpAddr::V4(Ipv4Addr::new(10, 1, 0, 1)), 7000);
        let mut krng = Rng::new(cfg.get("sutseed") ^ 0x77);
        let mut key = [0u8; 32];
        krng.fill(&mut key);
        let protocol_id = 0xABCD_0000 + cfg.get("proto");
        let max_clients = cfg.get("maxcl").max(1) as usize;
        let transport = NetcodeServerTransport::new(
            ServerConfig {
                current_time: Duration::from_secs(T0_SECS),
                max_clients,
                protocol_id,
                public_addresses: vec![server_addr],
                authentication: if cfg.get("unsecure") == 1 { ServerAuthentication::Unsecure } else { ServerAuthentication::Secure { private_key: key } },
            },
            UdpSocket::verif_bind(server_addr),
        )
        .expect("server transport");
        let n = cfg.get("nslots").max(1) as usize;
        let slots = (0..n)
            .map(|j| Slot {
                addr: SocketAddr::new(IpAddr::V4(Ipv4Addr::new(172, 16, 0, 10 + j as u8)), 6000 + j as u16),
                id: 0,
                client: None,
                epoch: 0,
                clock_ms: 0,
                to_server: Vec::new(),
                to_client: Vec::new(),
                chans: fresh_ledgers(),
                app_disconnected_client: false,
                app_disconnected_server: false,
                decided_at_ms: None,
                client_seen_connected: false,
                server_seen_connected: false,
                server_disc_events: 0,
                server_conn_events: 0,
                tainted: false,
                last_transport_err: None,
                lost_after_decision: [false, false],
                decided_side: None,
                decision_clean: false,
                emitted_n: 0,
                newest_handed: 0,
                fresh_waiting: false,
                server_heard_ms: None,
                last_from_server_ms: 0,
            })
            .collect();
        let mut w = WorldC {
            cfg: cfg.clone(),
            net,
            server: RenetServer::new(conn_config()),
            transport,
            server_addr,
            protocol_id,
            key,
            sv_ms: T0_SECS * 1000,
            slots,
            ledger: Vec::new(),
            meta: Vec::new(),
            ev_connected: BTreeMap::new(),
            submit_n: 0,
            // unsecure clients make their own token: 15 s timeout, 300 s expiry
            timeout_s: if cfg.get("unsecure") == 1 { 15 } else { cfg.get("timeout").max(1) },
            next_id: 1,
            warm_queue: VecDeque::new(),
            local: None,
        };
        if cfg.get("local") == 1 {
            w.local = Some(w.server.new_local_client(LOCAL_ID));
        }
        for j in 0..n {
            w.new_client(j);
        }
        // optional scripted opening, emitted through gen() as ordinary recorded operations: the twin race. Client 0 connects
        // (first table slot); client 1 requests, is challenged and answers, but its answer stays in flight and the client
        // crashes; it comes back from the address of slot 2 under its old identity and requests again (two half-open entries
        // for one identity); the old answer arrives (session in the second table slot); client 0 is disconnected by the
        // application (first table slot free again); only then the returned client answers its own challenge
        if cfg.get("twin") == 1 && n == 3 {
            let q = &mut w.warm_queue;
            let t = |q: &mut VecDeque<Op>, j: u64, dt: u64| q.push_back(Op::new(K_TICKCLIENT, j, dt, 0, 0));
            let sv = |q: &mut VecDeque<Op>| q.push_back(Op::new(K_TICKSERVER, 16, 0, 0, 0));
            let up = |q: &mut VecDeque<Op>, j: u64| q.push_back(Op::new(K_DELIVERALL, j, 0, 0, 0));
            let down = |q: &mut VecDeque<Op>, j: u64| q.push_back(Op::new(K_DELIVERALL, j, 1, 0, 0));
            t(q, 0, 100); up(q, 0); sv(q); down(q, 0); t(q, 0, 16); up(q, 0); sv(q); down(q, 0); t(q, 0, 16); up(q, 0); sv(q);
            t(q, 1, 100); up(q, 1); sv(q); down(q, 1); t(q, 1, 16);
            q.push_back(Op::new(K_CRASH, 1, 0, 0, 0));
            q.push_back(Op::new(K_REJOIN, 1, 2, 0, 0));
            t(q, 2, 100); up(q, 2); sv(q);
            up(q, 1); sv(q);
            q.push_back(Op::new(K_DISCONNECT, 0, 0, 0, 0));
            sv(q);
            down(q, 2); t(q, 2, 16); up(q, 2); sv(q);
        }
        // optional warm-up: clean rounds chosen by the configuration, emitted through gen() so they are part of the recorded trace
        for _ in 0..cfg.get("warm") {
            for j in 0..n {
                w.warm_queue.push_back(Op::new(K_TICKCLIENT, j as u64, 100, 0, 0));
            }
            w.warm_queue.push_back(Op::new(K_TICKSERVER, 100, 0, 0, 0));
            for j in 0..n {
                w.warm_queue.push_back(Op::new(K_DELIVERALL, j as u64, 0, 0, 0));
                w.warm_queue.push_back(Op::new(K_DELIVERALL, j as u64, 1, 0, 0));
            }
        }
        w
    }

    /// A new client object in slot j with a fresh identity and a fresh token (tokens are never reused in this engine).
    pub fn new_client(&mut self, j: usize) {
        self.new_client_as(j, None)
    }

    /// `identity`: come back under an identity that was used before (a restarted client keeps its user id but gets a new
    /// socket, hence a new address) instead of a fresh one.
    pub fn new_client_as(&mut self, j: usize, identity: Option<u64>) {
        let id = match identity {
            Some(id) => id,
            None => {
                self.next_id += 1;
                self.next_id - 1
            }
        };
        let now = Duration::from_millis(self.sv_ms);
        let unsecure = self.cfg.get("unsecure") == 1;
        let s = &mut self.slots[j];
        // a fresh socket: nothing of the previous object is left in its inbox
        self.net.0.borrow_mut().inbox.remove(&s.addr);
        let transport = if unsecure {
            // the client builds its own token from its wall clock, which therefore has to agree with the server's
            let auth = ClientAuthentication::Unsecure { protocol_id: self.protocol_id, client_id: id, server_addr: self.server_addr, user_data: None };
            NetcodeClientTransport::new(now, auth, UdpSocket::verif_bind(s.addr)).expect("client transport")
        } else {
            let token = ConnectToken::generate(now, self.protocol_id, self.cfg.get("expire").max(5), id, self.timeout_s as i32, vec![self.server_addr], None, &self.key).expect("token");
            NetcodeClientTransport::new(Duration::from_millis(s.clock_ms), ClientAuthentication::Secure { connect_token: token }, UdpSocket::verif_bind(s.addr)).expect("client transport")
        };
        s.client = Some((RenetClient::new(conn_config()), transport));
        s.id = id;
        s.epoch += 1;
        s.to_server.clear();
        s.to_client.clear();
        s.chans = fresh_ledgers();
        s.app_disconnected_client = false;
        s.app_disconnected_server = false;
        s.decided_at_ms = None;
        s.client_seen_connected = false;
        s.server_seen_connected = false;
        s.server_disc_events = 0;
        s.server_conn_events = 0;
        s.tainted = false;
        s.last_transport_err = None;
        s.lost_after_decision = [false, false];
        s.decided_side = None;
        s.decision_clean = false;
        s.emitted_n = 0;
        s.newest_handed = 0;
        s.fresh_waiting = false;
        s.server_heard_ms = None;
        s.last_from_server_ms = s.clock_ms;
    }

    pub fn slot_of_addr(&self, a: SocketAddr) -> Option<usize> {
        self.slots.iter().position(|s| s.addr == a)
    }
    pub fn slot_of_id(&self, id: u64) -> Option<usize> {
        self.slots.iter().position(|s| s.id == id)
    }
}

impl World for WorldC {
    fn gen_op(&mut self, rng: &mut Rng) -> Op {
        self.gen(rng)
    }
    fn apply(&mut self, op: &Op, obs: &mut Obs) {
        self.apply_op(op, obs)
    }
    fn epilogue(&mut self, obs: &mut Obs) {
        self.run_epilogue(obs)
    }
    fn panic_props(&self, _op: Option<&Op>) -> Vec<String> {
        vec!["C20".into()]
    }
    fn op_names(&self) -> &'static [&'static str] {
        OP_NAMES
    }
}

pub fn gen_cfg(family: &str, rng: &mut Rng) -> Cfg {
    let mut cfg = Cfg::new("C", family);
    cfg.set("sutseed", rng.next() >> 1);
    cfg.set("proto", rng.below(3));
    cfg.set("nslots", rng.range(1, 3));
    cfg.set("maxcl", rng.range(2, 4));
    cfg.set("timeout", *rng.pick(&[2u64, 5, 5, 15]));
    cfg.set("expire", *rng.pick(&[30u64, 300]));
    cfg.set("loss", *rng.pick(&[0u64, 0, 10, 25]));
    cfg.set("dup", *rng.pick(&[0u64, 10, 30]));
    cfg.set("reorder", rng.below(3));
    cfg.set("corrupt", *rng.pick(&[0u64, 0, 5, 15]));
    cfg.set("sockerr", *rng.pick(&[0u64, 0, 3]));
    cfg.set("appdisc", *rng.pick(&[0u64, 1, 1]));
    cfg.set("warm", *rng.pick(&[0u64, 6, 6]));
    cfg.set("local", *rng.pick(&[0u64, 0, 1]));
    cfg.set("unsecure", *rng.pick(&[0u64, 0, 0, 1]));
    cfg.set("spoof", *rng.pick(&[0u64, 0, 0, 0, 1]));
    cfg.set("setmax", *rng.pick(&[0u64, 0, 1]));
    // the twin race, scripted at the start of the run (see WorldC::new)
    let twin = if cfg.get("nslots") == 3 && rng.chance(1, 5) { 1 } else { 0 };
    cfg.set("twin", twin);
    let _ = BTreeSet::<u8>::new();
    cfg
}
