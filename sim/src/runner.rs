//! Batch runner: seeded search over runs on all cores, minimisation, replay files, known findings, evidence.
use crate::checks::{self, Engine};
use crate::core::{self, minimise, read_replay, run_generated, run_trace, write_replay, Cfg, Counters, Op, Replay, RunResult, Violation};
use crate::json::J;
use crate::prng::{hash_str, mix, Rng};
use std::collections::{BTreeMap, HashSet};
use std::sync::atomic::{AtomicBool, AtomicU64, Ordering};
use std::sync::Mutex;
use std::time::Instant;

const DEFAULT_SEED: u64 = 20260924;

fn verif_root() -> String {
    std::env::var("VERIF_ROOT").unwrap_or_else(|_| "/verif".to_string())
}

fn env_seed() -> u64 {
    std::env::var("VERIF_SEED").ok().and_then(|s| s.trim().parse::<u64>().ok()).unwrap_or(DEFAULT_SEED)
}

pub struct Known {
    pub status: String, // known | fixed
    pub prop: String,
    pub signature: String,
    pub replay: String,
    pub text: String,
}

pub fn load_known() -> Vec<Known> {
    let path = format!("{}/known_findings.txt", verif_root());
    let Ok(text) = std::fs::read_to_string(&path) else { return Vec::new() };
    let mut out = Vec::new();
    for l in text.lines() {
        let l = l.trim();
        if l.is_empty() || l.starts_with('#') {
            continue;
        }
        let (status, rest) = match l.split_once(':') {
            Some((s, r)) if s == "known" || s == "fixed" => (s.to_string(), r.trim()),
            _ => continue,
        };
        let mut prop = String::new();
        let mut signature = String::new();
        let mut replay = String::new();
        let mut text = Vec::new();
        for w in rest.split_whitespace() {
            if let Some(v) = w.strip_prefix("property=") {
                prop = v.to_string();
            } else if let Some(v) = w.strip_prefix("signature=") {
                signature = v.to_string();
            } else if let Some(v) = w.strip_prefix("replay=") {
                replay = v.to_string();
            } else {
                text.push(w);
            }
        }
        out.push(Known { status, prop, signature, replay, text: text.join(" ") });
    }
    out
}

fn sig_matches(pattern: &str, sig: &str) -> bool {
    if let Some(p) = pattern.strip_suffix('*') {
        sig.starts_with(p)
    } else {
        pattern == sig
    }
}

fn run_seed(seed: u64, prop: &str, eng: &str, family: &str, idx: u64) -> u64 {
    mix(&[seed, hash_str(prop), hash_str(eng), hash_str(family), idx])
}

/// Everything about run `idx` is a pure function of (seed, prop, engine, family, idx, code).
pub fn one_run(e: &Engine, seed: u64, prop: &str, family: &str, idx: u64, max_ops: usize) -> RunResult {
    one_run_from(e, seed, prop, family, idx, max_ops, u64::MAX)
}

/// `long_from`: run indexes at or above it exist only in the thorough tier; every 16th of those is a long run (up to six
/// times the usual length) so that the deep tier also reaches states many operations away from the start.
pub fn one_run_from(e: &Engine, seed: u64, prop: &str, family: &str, idx: u64, max_ops: usize, long_from: u64) -> RunResult {
    let rs = run_seed(seed, prop, e.name, family, idx);
    let mut crng = Rng::new(rs ^ 0xC0F1_6000);
    let mut cfg = (e.gen_cfg)(family, &mut crng);
    checks::bias_cfg(prop, &mut cfg, &mut crng);
    let mut n_ops = crng.range(30.min(max_ops as u64), max_ops as u64) as usize;
    if idx >= long_from && idx % 16 == 0 {
        n_ops *= 6;
    }
    run_generated(e.make, &cfg, rs, n_ops)
}

fn fmt_op(names: &[&str], op: &Op) -> String {
    format!("{} {} {} {} {}", names[op.k as usize], op.a, op.b, if op.c == u64::MAX { -1i128 } else { op.c as i128 }, op.d)
}

struct Found {
    idx: u64,
    family: String,
    engine: String,
    seed: u64,
    cfg: Cfg,
    ops: Vec<Op>,
    v: Violation,
}

#[derive(Default)]
struct Agg {
    runs: u64,
    ops: u64,
    sim_ms: u64,
    counters: Counters,
    nontrivial: HashSet<u64>,
    nontrivial_runs: u64,
    found: BTreeMap<String, Found>, // by signature, lowest idx wins
    other_props: BTreeMap<String, u64>,
    known_hits: BTreeMap<String, u64>,
    samples: Vec<J>,
    truncated: bool,
    panicked_runs: u64,
    long_runs: u64,
}

fn is_nontrivial(prop: &str, c: &Counters) -> bool {
    let op = format!("oracle.{}.", prop);
    let fault = c.iter().any(|(k, v)| k.starts_with("fault.") && *v > 0);
    let oracle = c.iter().any(|(k, v)| k.starts_with(&op) && *v > 0);
    fault && oracle
}

fn sample_json(e: &Engine, family: &str, idx: u64, r: &RunResult) -> J {
    let mut j = J::obj();
    j.set("engine", J::s(e.name));
    j.set("family", J::s(family));
    j.set("run_index", J::u(idx));
    j.set("config", J::s(r.cfg.to_line()));
    j.set("n_ops", J::u(r.ops.len() as u64));
    let shown: Vec<String> = r.ops.iter().take(80).map(|o| fmt_op(e.names, o)).collect();
    j.set("ops_first_80", J::strs(shown));
    j.set("event_log_hash", J::s(format!("{:016x}", r.log_hash)));
    j.set("simulated_ms", J::u(r.sim_ms));
    j
}

pub fn cmd_check(args: &[String]) -> i32 {
    let Some(prop) = args.first().cloned() else {
        eprintln!("check: missing property id");
        return 2;
    };
    let mut tier = std::env::var("VERIF_TIER").unwrap_or_else(|_| "quick".into());
    let mut scale: f64 = 1.0;
    let mut it = args[1..].iter();
    while let Some(a) = it.next() {
        match a.as_str() {
            "--tier" => tier = it.next().cloned().unwrap_or(tier),
            "--scale" => scale = it.next().and_then(|s| s.parse().ok()).unwrap_or(1.0),
            _ => {}
        }
    }
    if tier != "quick" && tier != "thorough" {
        eprintln!("check: bad tier {}", tier);
        return 2;
    }
    let plans = checks::plans(&prop);
    if plans.is_empty() {
        eprintln!("check: no plan for property {}", prop);
        return 2;
    }
    let seed = env_seed();
    let t0 = Instant::now();
    println!("renet-sim check property={} tier={} VERIF_SEED={}", prop, tier, seed);
    let known = load_known();
    let root = verif_root();
    let mut exit_code = 0;
    let mut violations_reported = 0u64;
    let mut known_reproduced: Vec<String> = Vec::new();
    let mut corpus_replayed = 0u64;

    // ---- 1. known findings: replay each listed trace; print KNOWN-FINDING if it still reproduces ----
    for k in known.iter().filter(|k| k.prop == prop && k.status == "known") {
        let mut reproduced = false;
        if !k.replay.is_empty() {
            let path = format!("{}/{}", root, k.replay);
            match read_replay(&path, &|n| checks::names_of(n)) {
                Ok(rp) => {
                    let e = checks::engine(&rp.cfg.engine).unwrap();
                    let r = run_trace(e.make, &rp.cfg, &rp.ops);
                    corpus_replayed += 1;
                    reproduced = r.violations.iter().any(|v| sig_matches(&k.signature, &v.signature()));
                }
                Err(err) => {
                    eprintln!("harness error: {}", err);
                    return 2;
                }
            }
        }
        if reproduced {
            println!("KNOWN-FINDING: property={} {} [signature {}]", k.prop, k.text, k.signature);
            known_reproduced.push(k.signature.clone());
        } else {
            println!("note: listed known finding no longer reproduces from its trace: {}", k.signature);
        }
    }

    // ---- 2. regression and directed corpus: must not violate the property ----
    for sub in ["regress", "directed"] {
        let dir = format!("{}/corpus/{}", root, sub);
        let mut files: Vec<String> = std::fs::read_dir(&dir)
            .map(|d| d.filter_map(|e| e.ok()).map(|e| e.path().to_string_lossy().to_string()).filter(|p| p.ends_with(".replay")).collect())
            .unwrap_or_default();
        files.sort();
        for f in files {
            let rp = match read_replay(&f, &|n| checks::names_of(n)) {
                Ok(r) => r,
                Err(err) => {
                    eprintln!("harness error: {}", err);
                    return 2;
                }
            };
            let Some(e) = checks::engine(&rp.cfg.engine) else { continue };
            // only traces that concern this property: file name starts with the property id, or expect line names it
            let base = std::path::Path::new(&f).file_name().unwrap().to_string_lossy().to_string();
            let concerns = base.starts_with(&prop) || rp.expect.as_deref().map(|s| s.starts_with(&format!("{}/", prop))).unwrap_or(false);
            if !concerns {
                continue;
            }
            let r = run_trace(e.make, &rp.cfg, &rp.ops);
            corpus_replayed += 1;
            for v in r.violations.iter().filter(|v| v.prop == prop) {
                let sig = v.signature();
                if known.iter().any(|k| k.status == "known" && k.prop == prop && sig_matches(&k.signature, &sig)) {
                    continue;
                }
                println!("violation in corpus trace {}: {} -- {}", f, sig, v.detail);
                println!("VIOLATION property={} replay={}", prop, f);
                violations_reported += 1;
                exit_code = 1;
            }
        }
    }

    // ---- 3. seeded search ----
    let wall_cap: f64 = std::env::var("VERIF_WALL_CAP").ok().and_then(|s| s.parse().ok()).unwrap_or(if tier == "quick" { 240.0 } else { 3000.0 });
    let workers: usize = std::env::var("VERIF_WORKERS").ok().and_then(|s| s.parse().ok()).unwrap_or_else(|| std::thread::available_parallelism().map(|n| n.get()).unwrap_or(8));
    let mut total = Agg::default();
    let mut per_family: Vec<J> = Vec::new();
    let mut real: Vec<String> = Vec::new();
    let mut stub: Vec<String> = Vec::new();
    for plan in &plans {
        let e = checks::engine(plan.engine).expect("engine");
        for r in e.real {
            if !real.contains(&r.to_string()) {
                real.push(r.to_string());
            }
        }
        for s in e.stub {
            if !stub.contains(&s.to_string()) {
                stub.push(s.to_string());
            }
        }
        let n_runs = ((if tier == "quick" { plan.quick } else { plan.thorough }) as f64 * scale).max(1.0) as u64;
        let next = AtomicU64::new(0);
        let stop = AtomicBool::new(false);
        let agg = Mutex::new(Agg::default());
        let tf = Instant::now();
        std::thread::scope(|s| {
            for _ in 0..workers {
                s.spawn(|| {
                    let mut local = Agg::default();
                    loop {
                        if stop.load(Ordering::Relaxed) {
                            break;
                        }
                        let idx = next.fetch_add(1, Ordering::Relaxed);
                        if idx >= n_runs {
                            break;
                        }
                        if idx % 64 == 0 && t0.elapsed().as_secs_f64() > wall_cap {
                            stop.store(true, Ordering::Relaxed);
                            local.truncated = true;
                            break;
                        }
                        let r = one_run_from(&e, seed, &prop, plan.family, idx, plan.max_ops, plan.quick);
                        if r.ops.len() > plan.max_ops {
                            local.long_runs += 1;
                        }
                        local.runs += 1;
                        local.ops += r.ops.len() as u64;
                        local.sim_ms += r.sim_ms;
                        if r.panicked {
                            local.panicked_runs += 1;
                        }
                        for (k, v) in &r.counters {
                            core::bump_by(&mut local.counters, k, *v);
                        }
                        if is_nontrivial(&prop, &r.counters) {
                            local.nontrivial_runs += 1;
                            local.nontrivial.insert(r.abs_hash);
                        }
                        if idx == 0 || idx == n_runs / 2 || idx == n_runs - 1 {
                            local.samples.push(sample_json(&e, plan.family, idx, &r));
                        }
                        for v in &r.violations {
                            if v.prop == prop || v.prop == "HARNESS" {
                                let sig = v.signature();
                                let better = local.found.get(&sig).map(|f| idx < f.idx).unwrap_or(true);
                                if better {
                                    local.found.insert(
                                        sig,
                                        Found {
                                            idx,
                                            family: plan.family.to_string(),
                                            engine: plan.engine.to_string(),
                                            seed: run_seed(seed, &prop, e.name, plan.family, idx),
                                            cfg: r.cfg.clone(),
                                            ops: r.ops.clone(),
                                            v: v.clone(),
                                        },
                                    );
                                }
                            } else {
                                *local.other_props.entry(v.signature()).or_insert(0) += 1;
                            }
                        }
                    }
                    let mut a = agg.lock().unwrap();
                    a.runs += local.runs;
                    a.long_runs += local.long_runs;
                    a.ops += local.ops;
                    a.sim_ms += local.sim_ms;
                    a.panicked_runs += local.panicked_runs;
                    a.truncated |= local.truncated;
                    a.nontrivial_runs += local.nontrivial_runs;
                    for (k, v) in local.counters {
                        core::bump_by(&mut a.counters, &k, v);
                    }
                    a.nontrivial.extend(local.nontrivial);
                    a.samples.extend(local.samples);
                    for (k, v) in local.other_props {
                        *a.other_props.entry(k).or_insert(0) += v;
                    }
                    for (sig, f) in local.found {
                        let better = a.found.get(&sig).map(|g| f.idx < g.idx).unwrap_or(true);
                        if better {
                            a.found.insert(sig, f);
                        }
                    }
                });
            }
        });
        let a = agg.into_inner().unwrap();
        let secs = tf.elapsed().as_secs_f64();
        println!(
            "family {}/{}: {} runs, {} ops, {:.1} s, {} distinct non-trivial traces, {} signatures of {} found",
            plan.engine,
            plan.family,
            a.runs,
            a.ops,
            secs,
            a.nontrivial.len(),
            a.found.len(),
            prop
        );
        let mut fj = J::obj();
        fj.set("engine", J::s(plan.engine));
        fj.set("family", J::s(plan.family));
        fj.set("runs", J::u(a.runs));
        fj.set("runs_planned", J::u(n_runs));
        fj.set("ops", J::u(a.ops));
        fj.set("wall_s", J::Num((secs * 1000.0).round() / 1000.0));
        fj.set("truncated_by_wall_cap", J::Bool(a.truncated));
        per_family.push(fj);
        // merge into total
        total.runs += a.runs;
        total.long_runs += a.long_runs;
        total.ops += a.ops;
        total.sim_ms += a.sim_ms;
        total.panicked_runs += a.panicked_runs;
        total.truncated |= a.truncated;
        total.nontrivial_runs += a.nontrivial_runs;
        for (k, v) in a.counters {
            core::bump_by(&mut total.counters, &k, v);
        }
        total.nontrivial.extend(a.nontrivial);
        total.samples.extend(a.samples);
        for (k, v) in a.other_props {
            *total.other_props.entry(k).or_insert(0) += v;
        }
        for (sig, f) in a.found {
            total.found.entry(sig).or_insert(f);
        }
    }

    // ---- 4. triage what was found: known signature -> counted; otherwise minimise, write replay, verify, report ----
    let mut reported: Vec<J> = Vec::new();
    let mut found: Vec<(String, Found)> = total.found.into_iter().collect();
    found.sort_by_key(|(_, f)| f.idx);
    for (sig, f) in found {
        if let Some(k) = known.iter().find(|k| k.status == "known" && k.prop == prop && sig_matches(&k.signature, &sig)) {
            *total.known_hits.entry(k.signature.clone()).or_insert(0) += 1;
            if !known_reproduced.contains(&k.signature) {
                println!("KNOWN-FINDING: property={} {} [signature {}] (seen in random phase, run {})", k.prop, k.text, k.signature, f.idx);
                known_reproduced.push(k.signature.clone());
            }
            continue;
        }
        if f.v.prop == "HARNESS" {
            eprintln!("harness error in run {} ({}): {}", f.idx, sig, f.v.detail);
            exit_code = 2;
            continue;
        }
        if violations_reported >= 8 {
            println!("further signature not minimised: {} (run {})", sig, f.idx);
            continue;
        }
        let e = checks::engine(&f.engine).unwrap();
        let tm = Instant::now();
        let (min_ops, execs) = minimise(e.make, &f.cfg, &f.ops, &sig, 15_000);
        println!(
            "violation {} in run {} of family {}: {} -- minimised {} -> {} ops in {} executions ({:.1} s)",
            sig,
            f.idx,
            f.family,
            f.v.detail,
            f.ops.len(),
            min_ops.len(),
            execs,
            tm.elapsed().as_secs_f64()
        );
        let path = format!("{}/replays/{}-{}-{:08x}.replay", root, prop, seed, hash_str(&sig) as u32);
        let mut chosen = path.clone();
        let rp = Replay { cfg: f.cfg.clone(), seed: f.seed, expect: Some(sig.clone()), note: f.v.detail.clone(), ops: min_ops };
        if let Err(err) = write_replay(&path, &rp, e.names) {
            eprintln!("harness error: cannot write {}: {}", path, err);
            return 2;
        }
        // fresh-process confirmation
        let mut confirmed = confirm_replay(&path, &sig);
        if !confirmed {
            let full = format!("{}/replays/{}-{}-{:08x}-full.replay", root, prop, seed, hash_str(&sig) as u32);
            let rp = Replay { cfg: f.cfg.clone(), seed: f.seed, expect: Some(sig.clone()), note: f.v.detail.clone(), ops: f.ops.clone() };
            let _ = write_replay(&full, &rp, e.names);
            confirmed = confirm_replay(&full, &sig);
            chosen = full;
        }
        if !confirmed {
            eprintln!("harness error: violation {} of run {} does not replay in a fresh process", sig, f.idx);
            exit_code = 2;
            continue;
        }
        println!("VIOLATION property={} replay={}", prop, chosen);
        violations_reported += 1;
        if exit_code == 0 {
            exit_code = 1;
        }
        let mut vj = J::obj();
        vj.set("signature", J::s(sig));
        vj.set("detail", J::s(f.v.detail.clone()));
        vj.set("replay", J::s(chosen));
        reported.push(vj);
    }

    // ---- 5. evidence ----
    let wall = t0.elapsed().as_secs_f64();
    let (level, level_text) = checks::level_text(&prop);
    let mut cov = J::obj();
    cov.set("evaluations", J::u(total.runs + corpus_replayed));
    cov.set("distinct_nontrivial", J::u(total.nontrivial.len() as u64));
    cov.set(
        "rule",
        J::s(format!(
            "each evaluation is one simulated run: a configuration and an explicit operation/fault trace chosen by a PRNG seeded from mix(VERIF_SEED, property, engine, family, run index), \
             executed against the real code, followed by a PRNG-free heal phase. A run is non-trivial for {p} when at least one fault fired (any fault.* counter > 0) and at least one oracle of {p} \
             was evaluated on real traffic (any oracle.{p}.* counter > 0). distinct = number of distinct abstract-trace hashes (sequence of op kinds, link directions and outcome classes; payload bytes excluded) among those runs.",
            p = prop
        )),
    );
    total.samples.truncate(4);
    cov.set("samples", J::Arr(total.samples.clone()));
    cov.set("runs", J::u(total.runs));
    cov.set("long_runs", J::u(total.long_runs));
    cov.set("nontrivial_runs", J::u(total.nontrivial_runs));
    cov.set("corpus_traces_replayed", J::u(corpus_replayed));
    cov.set("operations_executed", J::u(total.ops));
    cov.set("simulated_time_s", J::Num(total.sim_ms as f64 / 1000.0));
    cov.set("runs_per_hour", J::u(if wall > 0.0 { (total.runs as f64 / wall * 3600.0) as u64 } else { 0 }));
    cov.set("seeds_per_hour", J::u(if wall > 0.0 { (total.runs as f64 / wall * 3600.0) as u64 } else { 0 }));
    cov.set("workers", J::u(workers as u64));
    cov.set("truncated_by_wall_cap", J::Bool(total.truncated));
    cov.set("runs_ended_by_panic", J::u(total.panicked_runs));
    cov.set("families", J::Arr(per_family));
    let group = |prefix: &str| -> J {
        let mut o = J::obj();
        for (k, v) in total.counters.iter().filter(|(k, _)| k.starts_with(prefix)) {
            o.set(&k[prefix.len()..], J::u(*v));
        }
        o
    };
    cov.set("faults_fired", group("fault."));
    cov.set("oracle_evaluations", group("oracle."));
    cov.set("probes", group("probe."));
    cov.set("operations", group("op."));
    cov.set("disconnects_seen", group("disconnect."));
    let mut misc = J::obj();
    for (k, v) in total.counters.iter().filter(|(k, _)| !["fault.", "oracle.", "probe.", "op.", "disconnect."].iter().any(|p| k.starts_with(p))) {
        misc.set(k, J::u(*v));
    }
    cov.set("other_counters", misc);
    let mut other = J::obj();
    for (k, v) in &total.other_props {
        other.set(k, J::u(*v));
    }
    cov.set("violations_of_other_properties_seen", other);
    let mut kh = J::obj();
    for (k, v) in &total.known_hits {
        kh.set(k, J::u(*v));
    }
    cov.set("known_finding_signatures_seen_in_random_phase", kh);
    cov.set("known_findings_reproduced", J::strs(known_reproduced.clone()));
    cov.set("violations_reported", J::Arr(reported));
    let mut comp = J::obj();
    comp.set("real", J::strs(real));
    comp.set("stub", J::strs(stub));
    cov.set("components", comp);
    cov.set("level_text", J::s(level_text));

    let mut ev = J::obj();
    ev.set("property_id", J::s(prop.clone()));
    ev.set("tier", J::s(tier.clone()));
    ev.set("seed", J::Int(seed as i128));
    ev.set("level", J::s(level));
    ev.set("coverage", cov);
    ev.set(
        "assumptions",
        J::strs([
            "sampling, not proof: verdict covers the schedules, faults and inputs drawn for this seed",
            "reference models (sent-packet map, pending-ack set, message ledgers, session model) are trusted as the specification",
            "cryptographic strength of chacha20poly1305 is assumed; only its use by the library is checked",
        ]),
    );
    ev.set("wall_s", J::Num((wall * 1000.0).round() / 1000.0));
    ev.set("violations", J::Int(violations_reported as i128));
    let evdir = format!("{}/evidence", root);
    let _ = std::fs::create_dir_all(&evdir);
    let evpath = format!("{}/{}.json", evdir, prop);
    if let Err(err) = std::fs::write(&evpath, ev.to_string_pretty()) {
        eprintln!("harness error: cannot write {}: {}", evpath, err);
        return 2;
    }
    println!(
        "property {}: {} runs, {} distinct non-trivial, {} violation(s) reported, {} known finding(s), {:.1} s -> {}",
        prop,
        total.runs,
        total.nontrivial.len(),
        violations_reported,
        known_reproduced.len(),
        wall,
        evpath
    );
    exit_code
}

fn confirm_replay(path: &str, sig: &str) -> bool {
    let exe = match std::env::current_exe() {
        Ok(e) => e,
        Err(_) => return false,
    };
    // the confirmation must not depend on the machine being idle: a spawn that fails (process or memory limits under load)
    // is retried, and as a last resort the file is read back and replayed in this process
    for attempt in 0..4 {
        match std::process::Command::new(&exe).arg("replay").arg(path).output() {
            Ok(out) if out.status.code().is_some() => {
                let s = String::from_utf8_lossy(&out.stdout);
                return out.status.code() == Some(1) && s.lines().any(|l| l.starts_with("signature ") && l[10..].trim() == sig);
            }
            Ok(_) | Err(_) => {
                eprintln!("note: could not run the fresh-process replay of {} (attempt {})", path, attempt + 1);
                std::thread::sleep(std::time::Duration::from_millis(300));
            }
        }
    }
    match read_replay(path, &|n| checks::names_of(n)) {
        Ok(rp) => {
            let e = checks::engine(&rp.cfg.engine).unwrap();
            let r = run_trace(e.make, &rp.cfg, &rp.ops);
            eprintln!("note: {} confirmed by reading the file back in this process instead", path);
            r.violations.iter().any(|v| v.signature() == sig)
        }
        Err(_) => false,
    }
}

pub fn cmd_replay(args: &[String]) -> i32 {
    let Some(path) = args.first() else {
        eprintln!("replay: missing file");
        return 2;
    };
    let rp = match read_replay(path, &|n| checks::names_of(n)) {
        Ok(r) => r,
        Err(e) => {
            eprintln!("harness error: {}", e);
            return 2;
        }
    };
    let e = checks::engine(&rp.cfg.engine).unwrap();
    let r = run_trace(e.make, &rp.cfg, &rp.ops);
    println!("replayed {} ops (engine {}, family {}), event log hash {:016x}", rp.ops.len(), rp.cfg.engine, rp.cfg.family, r.log_hash);
    for v in &r.violations {
        println!("signature {}", v.signature());
        println!("  at op {}: {}", v.at_op, v.detail);
    }
    match &rp.expect {
        Some(exp) => {
            if r.violations.iter().any(|v| &v.signature() == exp) {
                let prop = exp.split('/').next().unwrap_or("?");
                println!("VIOLATION property={} replay={}", prop, path);
                1
            } else {
                println!("expected signature {} did not occur", exp);
                0
            }
        }
        None => {
            if let Some(v) = r.violations.first() {
                println!("VIOLATION property={} replay={}", v.prop, path);
                1
            } else {
                0
            }
        }
    }
}

/// `renet-sim shrink <file> [executions]`: runs the minimiser on a replay file with a budget of one's own choosing
/// (`VERIF_MIN_SECS` lifts the wall-clock bound) and writes `<file>.min`. A triage tool; no check depends on it.
pub fn cmd_shrink(args: &[String]) -> i32 {
    let Some(path) = args.first() else { return 2 };
    let budget: usize = args.get(1).and_then(|s| s.parse().ok()).unwrap_or(20_000);
    let rp = match read_replay(path, &|n| checks::names_of(n)) {
        Ok(r) => r,
        Err(e) => {
            eprintln!("harness error: {}", e);
            return 2;
        }
    };
    let Some(sig) = rp.expect.clone() else {
        eprintln!("shrink: the file names no expected signature");
        return 2;
    };
    let e = checks::engine(&rp.cfg.engine).unwrap();
    let (ops, execs) = minimise(e.make, &rp.cfg, &rp.ops, &sig, budget);
    let out = format!("{}.min", path);
    let n = ops.len();
    let rp2 = Replay { cfg: rp.cfg.clone(), seed: rp.seed, expect: Some(sig), note: rp.note.clone(), ops };
    if write_replay(&out, &rp2, e.names).is_err() {
        return 2;
    }
    println!("{} -> {} ops in {} executions: {}", rp.ops.len(), n, execs, out);
    0
}

/// Prints "<idx> <log hash> <abs hash> <n violations>" per run; used by tools/detcheck to diff across processes.
pub fn cmd_hashes(args: &[String]) -> i32 {
    if args.len() < 5 {
        eprintln!("hashes <prop> <engine> <family> <from> <count> [--trace]");
        return 2;
    }
    let prop = &args[0];
    let Some(e) = checks::engine(&args[1]) else { return 2 };
    let family = &args[2];
    let from: u64 = args[3].parse().unwrap_or(0);
    let count: u64 = args[4].parse().unwrap_or(1);
    let via_trace = args.iter().any(|a| a == "--trace");
    let workers: usize = std::env::var("VERIF_WORKERS").ok().and_then(|s| s.parse().ok()).unwrap_or(1);
    let seed = env_seed();
    let out = Mutex::new(BTreeMap::new());
    let next = AtomicU64::new(from);
    std::thread::scope(|s| {
        for _ in 0..workers {
            s.spawn(|| loop {
                let idx = next.fetch_add(1, Ordering::Relaxed);
                if idx >= from + count {
                    break;
                }
                let long_from = if std::env::var("VERIF_HASHES_LONG").is_ok() { 0 } else { u64::MAX };
                let max_ops: usize = std::env::var("VERIF_HASHES_MAXOPS").ok().and_then(|s| s.parse().ok()).unwrap_or(300);
                let t = Instant::now();
                let r = one_run_from(&e, seed, prop, family, idx, max_ops, long_from);
                if std::env::var("VERIF_HASHES_TIME").is_ok() {
                    eprintln!("time {} {} ops {:.3} s", idx, r.ops.len(), t.elapsed().as_secs_f64());
                }
                let r = if via_trace { run_trace(e.make, &r.cfg, &r.ops) } else { r };
                let sigs: Vec<String> = r.violations.iter().map(|v| v.signature()).collect();
                out.lock().unwrap().insert(idx, format!("{} {:016x} {:016x} {} {}", idx, r.log_hash, r.abs_hash, r.ops.len(), sigs.join(",")));
            });
        }
    });
    for (_, l) in out.into_inner().unwrap() {
        println!("{}", l);
    }
    0
}
