//! Minimal JSON value + writer (no dependency).
use std::fmt::Write;

#[derive(Clone, Debug)]
pub enum J {
    Null,
    Bool(bool),
    Int(i128),
    Num(f64),
    Str(String),
    Arr(Vec<J>),
    Obj(Vec<(String, J)>),
}

impl J {
    pub fn obj() -> J {
        J::Obj(Vec::new())
    }
    pub fn set(&mut self, k: &str, v: J) -> &mut Self {
        if let J::Obj(o) = self {
            if let Some(e) = o.iter_mut().find(|(kk, _)| kk == k) {
                e.1 = v;
            } else {
                o.push((k.to_string(), v));
            }
        }
        self
    }
    pub fn s(v: impl Into<String>) -> J {
        J::Str(v.into())
    }
    pub fn i(v: impl Into<i128>) -> J {
        J::Int(v.into())
    }
    pub fn u(v: u64) -> J {
        J::Int(v as i128)
    }
    pub fn strs<I: IntoIterator<Item = S>, S: Into<String>>(it: I) -> J {
        J::Arr(it.into_iter().map(|s| J::Str(s.into())).collect())
    }

    pub fn write(&self, out: &mut String, indent: usize) {
        match self {
            J::Null => out.push_str("null"),
            J::Bool(b) => out.push_str(if *b { "true" } else { "false" }),
            J::Int(i) => {
                let _ = write!(out, "{}", i);
            }
            J::Num(f) => {
                if f.is_finite() {
                    let _ = write!(out, "{}", f);
                } else {
                    out.push_str("null");
                }
            }
            J::Str(s) => write_str(out, s),
            J::Arr(a) => {
                if a.is_empty() {
                    out.push_str("[]");
                    return;
                }
                let simple = a.iter().all(|x| !matches!(x, J::Arr(_) | J::Obj(_)));
                out.push('[');
                for (i, x) in a.iter().enumerate() {
                    if i > 0 {
                        out.push(',');
                    }
                    if !simple {
                        out.push('\n');
                        pad(out, indent + 1);
                    } else if i > 0 {
                        out.push(' ');
                    }
                    x.write(out, indent + 1);
                }
                if !simple {
                    out.push('\n');
                    pad(out, indent);
                }
                out.push(']');
            }
            J::Obj(o) => {
                if o.is_empty() {
                    out.push_str("{}");
                    return;
                }
                out.push('{');
                for (i, (k, v)) in o.iter().enumerate() {
                    if i > 0 {
                        out.push(',');
                    }
                    out.push('\n');
                    pad(out, indent + 1);
                    write_str(out, k);
                    out.push_str(": ");
                    v.write(out, indent + 1);
                }
                out.push('\n');
                pad(out, indent);
                out.push('}');
            }
        }
    }

    pub fn to_string_pretty(&self) -> String {
        let mut s = String::new();
        self.write(&mut s, 0);
        s.push('\n');
        s
    }
}

fn pad(out: &mut String, n: usize) {
    for _ in 0..n {
        out.push(' ');
    }
}

fn write_str(out: &mut String, s: &str) {
    out.push('"');
    for c in s.chars() {
        match c {
            '"' => out.push_str("\\\""),
            '\\' => out.push_str("\\\\"),
            '\n' => out.push_str("\\n"),
            '\r' => out.push_str("\\r"),
            '\t' => out.push_str("\\t"),
            c if (c as u32) < 0x20 => {
                let _ = write!(out, "\\u{:04x}", c as u32);
            }
            c => out.push(c),
        }
    }
    out.push('"');
}
