//! Shared simulator core: op/trace language, run driver with panic capture, minimiser, replay files.
use crate::prng::{Fnv, Rng};
use std::cell::RefCell;
use std::collections::BTreeMap;
use std::panic::{catch_unwind, AssertUnwindSafe};

/// One explicit operation of a run. `k` indexes the engine's op-name table; a..d are its arguments.
/// Arguments are always reduced modulo what exists when the op executes, so every op list is executable.
#[derive(Clone, Debug, PartialEq, Eq)]
pub struct Op {
    pub k: u8,
    pub a: u64,
    pub b: u64,
    pub c: u64,
    pub d: u64,
}

impl Op {
    pub fn new(k: u8, a: u64, b: u64, c: u64, d: u64) -> Op {
        Op { k, a, b, c, d }
    }
}

/// Run configuration: engine, family and an ordered list of integer knobs.
#[derive(Clone, Debug, PartialEq, Eq)]
pub struct Cfg {
    pub engine: String,
    pub family: String,
    pub kv: Vec<(String, u64)>,
}

impl Cfg {
    pub fn new(engine: &str, family: &str) -> Cfg {
        Cfg { engine: engine.to_string(), family: family.to_string(), kv: Vec::new() }
    }
    pub fn get(&self, k: &str) -> u64 {
        self.kv.iter().find(|(kk, _)| kk == k).map(|(_, v)| *v).unwrap_or(0)
    }
    pub fn has(&self, k: &str) -> bool {
        self.kv.iter().any(|(kk, _)| kk == k)
    }
    pub fn set(&mut self, k: &str, v: u64) {
        if let Some(e) = self.kv.iter_mut().find(|(kk, _)| kk == k) {
            e.1 = v;
        } else {
            self.kv.push((k.to_string(), v));
        }
    }
    pub fn to_line(&self) -> String {
        self.kv.iter().map(|(k, v)| format!("{}={}", k, v)).collect::<Vec<_>>().join(" ")
    }
}

#[derive(Clone, Debug)]
pub struct Violation {
    pub prop: String,
    pub oracle: String,
    pub disc: String,
    pub detail: String,
    pub at_op: usize,
}

impl Violation {
    pub fn signature(&self) -> String {
        format!("{}/{}/{}", self.prop, self.oracle, self.disc)
    }
}

pub type Counters = BTreeMap<String, u64>;

pub fn bump(c: &mut Counters, k: &str) {
    bump_by(c, k, 1);
}
pub fn bump_by(c: &mut Counters, k: &str, n: u64) {
    if let Some(v) = c.get_mut(k) {
        *v += n;
    } else {
        c.insert(k.to_string(), n);
    }
}

/// Collector handed to worlds: violations, counters, event-log hash, abstract-trace hash.
#[derive(Default)]
pub struct Obs {
    pub violations: Vec<Violation>,
    pub counters: Counters,
    pub log: Fnv,
    pub abs: Fnv,
    pub cur_op: usize,
    pub sim_ms: u64,
}

impl Obs {
    pub fn violate(&mut self, prop: &str, oracle: &str, disc: &str, detail: String) {
        // keep the first occurrence of each signature per run
        let sig = format!("{}/{}/{}", prop, oracle, disc);
        if self.violations.iter().any(|v| v.signature() == sig) {
            return;
        }
        self.violations.push(Violation {
            prop: prop.to_string(),
            oracle: oracle.to_string(),
            disc: disc.to_string(),
            detail,
            at_op: self.cur_op,
        });
    }
    pub fn count(&mut self, k: &str) {
        bump(&mut self.counters, k);
    }
    pub fn count_by(&mut self, k: &str, n: u64) {
        bump_by(&mut self.counters, k, n);
    }
}

pub trait World {
    /// Choose the next operation (consumes the run PRNG; may look at the world).
    fn gen_op(&mut self, rng: &mut Rng) -> Op;
    /// Execute one operation against the real code and evaluate oracles.
    fn apply(&mut self, op: &Op, obs: &mut Obs);
    /// PRNG-free heal phase + liveness / quiescence oracles.
    fn epilogue(&mut self, obs: &mut Obs);
    /// Properties a panic during `op` counts against.
    fn panic_props(&self, op: Option<&Op>) -> Vec<String>;
    fn op_names(&self) -> &'static [&'static str];
}

pub struct RunResult {
    pub cfg: Cfg,
    pub ops: Vec<Op>,
    pub violations: Vec<Violation>,
    pub counters: Counters,
    pub log_hash: u64,
    pub abs_hash: u64,
    pub sim_ms: u64,
    pub panicked: bool,
}

thread_local! {
    static LAST_PANIC: RefCell<Option<(String, String)>> = const { RefCell::new(None) };
}

/// Installs a process-wide panic hook that records (location, message) per thread and prints nothing.
pub fn install_panic_hook() {
    std::panic::set_hook(Box::new(|info| {
        let loc = info.location().map(|l| l.file().to_string()).unwrap_or_else(|| "?".into());
        let msg = if let Some(s) = info.payload().downcast_ref::<&str>() {
            s.to_string()
        } else if let Some(s) = info.payload().downcast_ref::<String>() {
            s.clone()
        } else {
            "panic".to_string()
        };
        let line = info.location().map(|l| l.line()).unwrap_or(0);
        LAST_PANIC.with(|p| *p.borrow_mut() = Some((format!("{}:{}", loc, line), msg)));
    }));
}

fn take_panic() -> (String, String) {
    LAST_PANIC.with(|p| p.borrow_mut().take()).unwrap_or(("?".into(), "panic".into()))
}

fn normalise_digits(s: &str) -> String {
    let mut out = String::new();
    let mut in_digits = false;
    for c in s.chars() {
        if c.is_ascii_digit() {
            if !in_digits {
                out.push('#');
            }
            in_digits = true;
        } else {
            in_digits = false;
            out.push(if c == ' ' || c == '/' { '_' } else { c });
        }
    }
    out.chars().take(90).collect()
}

/// Path relative to the repository so that signatures do not depend on where /repo lives.
fn short_loc(loc: &str) -> String {
    // loc = file:line ; drop the line number (it moves with unrelated edits), keep the file
    let file = loc.rsplit_once(':').map(|x| x.0).unwrap_or(loc);
    let file = file.trim_start_matches("/repo/");
    // panics inside dependencies or std: keep the last two path components
    let parts: Vec<&str> = file.split('/').collect();
    let n = parts.len();
    if n > 3 {
        parts[n - 3..].join("/")
    } else {
        file.to_string()
    }
}

fn record_panic(world: &dyn World, op: Option<&Op>, obs: &mut Obs, phase: &str) {
    let (loc, msg) = take_panic();
    let disc = format!("{}:{}", short_loc(&loc), normalise_digits(&msg));
    if loc.starts_with("src/") {
        // a panic inside the harness itself is a harness error, never a finding
        obs.violate("HARNESS", "panic-in-harness", &disc, format!("panic in {} at {}: {}", phase, loc, msg));
        return;
    }
    for p in world.panic_props(op) {
        obs.violate(&p, "panic", &disc, format!("panic in {} at {}: {}", phase, loc, msg));
    }
}

pub type MakeWorld = fn(&Cfg) -> Box<dyn World>;

/// Generated run: the PRNG chooses each op by looking at the world; ops are recorded as executed.
pub fn run_generated(make: MakeWorld, cfg: &Cfg, seed: u64, n_ops: usize) -> RunResult {
    let mut obs = Obs::default();
    let mut rng = Rng::new(seed);
    let mut ops = Vec::with_capacity(n_ops);
    let mut panicked = false;
    let world = catch_unwind(AssertUnwindSafe(|| make(cfg)));
    let mut world = match world {
        Ok(w) => w,
        Err(_) => {
            let (loc, msg) = take_panic();
            obs.violate("HARNESS", "panic-in-setup", &short_loc(&loc), format!("{}: {}", loc, msg));
            return finish(cfg, ops, obs, true);
        }
    };
    for i in 0..n_ops {
        obs.cur_op = i;
        let op = match catch_unwind(AssertUnwindSafe(|| world.gen_op(&mut rng))) {
            Ok(op) => op,
            Err(_) => {
                let (loc, msg) = take_panic();
                obs.violate("HARNESS", "panic-in-gen", &short_loc(&loc), format!("{}: {}", loc, msg));
                panicked = true;
                break;
            }
        };
        ops.push(op.clone());
        let r = catch_unwind(AssertUnwindSafe(|| world.apply(&op, &mut obs)));
        if r.is_err() {
            record_panic(world.as_ref(), Some(&op), &mut obs, "apply");
            panicked = true;
            break;
        }
    }
    if !panicked {
        obs.cur_op = ops.len();
        let r = catch_unwind(AssertUnwindSafe(|| world.epilogue(&mut obs)));
        if r.is_err() {
            record_panic(world.as_ref(), None, &mut obs, "epilogue");
            panicked = true;
        }
    }
    // a poisoned world may panic again while dropping; contain it
    let _ = catch_unwind(AssertUnwindSafe(move || drop(world)));
    finish(cfg, ops, obs, panicked)
}

/// Trace run: no PRNG, executes the given ops then the epilogue.
pub fn run_trace(make: MakeWorld, cfg: &Cfg, ops: &[Op]) -> RunResult {
    let mut obs = Obs::default();
    let mut panicked = false;
    let world = catch_unwind(AssertUnwindSafe(|| make(cfg)));
    let mut world = match world {
        Ok(w) => w,
        Err(_) => {
            let (loc, msg) = take_panic();
            obs.violate("HARNESS", "panic-in-setup", &short_loc(&loc), format!("{}: {}", loc, msg));
            return finish(cfg, ops.to_vec(), obs, true);
        }
    };
    for (i, op) in ops.iter().enumerate() {
        obs.cur_op = i;
        let r = catch_unwind(AssertUnwindSafe(|| world.apply(op, &mut obs)));
        if r.is_err() {
            record_panic(world.as_ref(), Some(op), &mut obs, "apply");
            panicked = true;
            break;
        }
    }
    if !panicked {
        obs.cur_op = ops.len();
        let r = catch_unwind(AssertUnwindSafe(|| world.epilogue(&mut obs)));
        if r.is_err() {
            record_panic(world.as_ref(), None, &mut obs, "epilogue");
            panicked = true;
        }
    }
    let _ = catch_unwind(AssertUnwindSafe(move || drop(world)));
    finish(cfg, ops.to_vec(), obs, panicked)
}

fn finish(cfg: &Cfg, ops: Vec<Op>, obs: Obs, panicked: bool) -> RunResult {
    RunResult {
        cfg: cfg.clone(),
        ops,
        violations: obs.violations,
        counters: obs.counters,
        log_hash: obs.log.0,
        abs_hash: obs.abs.0,
        sim_ms: obs.sim_ms,
        panicked,
    }
}

/// ddmin over the op list, then argument simplification, preserving the violation signature.
pub fn minimise(make: MakeWorld, cfg: &Cfg, ops: &[Op], sig: &str, budget: usize) -> (Vec<Op>, usize) {
    let mut execs = 0usize;
    // bounded in executions and in wall time (long traces that do not shrink would otherwise cost budget x run time);
    // once the time is up every further candidate counts as "does not reproduce", which only makes the result less minimal
    let secs = std::env::var("VERIF_MIN_SECS").ok().and_then(|s| s.parse().ok()).unwrap_or(120u64);
    let deadline = std::time::Instant::now() + std::time::Duration::from_secs(secs);
    let test = |cand: &[Op], execs: &mut usize| -> bool {
        *execs += 1;
        if std::time::Instant::now() > deadline {
            *execs = (*execs).max(budget);
            return false;
        }
        let r = run_trace(make, cfg, cand);
        r.violations.iter().any(|v| v.signature() == sig)
    };
    let mut cur: Vec<Op> = ops.to_vec();
    // truncate after the op where the violation fired, if that still reproduces
    let mut n = 2usize;
    while cur.len() >= 2 && execs < budget {
        let chunk = (cur.len() + n - 1) / n;
        let mut reduced = false;
        let mut start = 0;
        while start < cur.len() && execs < budget {
            let end = (start + chunk).min(cur.len());
            let mut cand = Vec::with_capacity(cur.len() - (end - start));
            cand.extend_from_slice(&cur[..start]);
            cand.extend_from_slice(&cur[end..]);
            if !cand.is_empty() && test(&cand, &mut execs) {
                cur = cand;
                n = n.saturating_sub(1).max(2);
                reduced = true;
                break;
            }
            start = end;
        }
        if !reduced {
            if chunk == 1 {
                break;
            }
            n = (n * 2).min(cur.len());
        }
    }
    // single-op deletion sweep until fixpoint (cheap when short)
    let mut changed = true;
    while changed && execs < budget {
        changed = false;
        let mut i = 0;
        while i < cur.len() && execs < budget {
            if cur.len() > 1 {
                let mut cand = cur.clone();
                cand.remove(i);
                if test(&cand, &mut execs) {
                    cur = cand;
                    changed = true;
                    continue;
                }
            }
            i += 1;
        }
    }
    // argument simplification: try 0, then halving, per argument
    for i in 0..cur.len() {
        for f in 0..4 {
            if execs >= budget {
                break;
            }
            let get = |o: &Op| match f {
                0 => o.a,
                1 => o.b,
                2 => o.c,
                _ => o.d,
            };
            let set = |o: &mut Op, v: u64| match f {
                0 => o.a = v,
                1 => o.b = v,
                2 => o.c = v,
                _ => o.d = v,
            };
            let orig = get(&cur[i]);
            if orig == 0 {
                continue;
            }
            let mut cands = vec![0u64, 1];
            let mut h = orig / 2;
            while h > 1 && cands.len() < 6 {
                cands.push(h);
                h /= 2;
            }
            for v in cands {
                if v >= orig || execs >= budget {
                    continue;
                }
                let mut cand = cur.clone();
                set(&mut cand[i], v);
                if test(&cand, &mut execs) {
                    cur = cand;
                    break;
                }
            }
        }
    }
    (cur, execs)
}

// ---------------------------------------------------------------------------------------------
// replay files

pub struct Replay {
    pub cfg: Cfg,
    pub seed: u64,
    pub expect: Option<String>,
    pub note: String,
    pub ops: Vec<Op>,
}

pub fn write_replay(path: &str, r: &Replay, names: &[&str]) -> std::io::Result<()> {
    let mut s = String::new();
    s.push_str("renet-sim replay v1\n");
    s.push_str(&format!("engine {}\n", r.cfg.engine));
    s.push_str(&format!("family {}\n", r.cfg.family));
    s.push_str(&format!("seed {}\n", r.seed));
    s.push_str(&format!("cfg {}\n", r.cfg.to_line()));
    if let Some(e) = &r.expect {
        s.push_str(&format!("expect {}\n", e));
    }
    if !r.note.is_empty() {
        for l in r.note.lines() {
            s.push_str(&format!("# {}\n", l));
        }
    }
    for op in &r.ops {
        s.push_str(&format!("op {} {} {} {} {}\n", names[op.k as usize], op.a, op.b, op.c, op.d));
    }
    s.push_str("end\n");
    if let Some(dir) = std::path::Path::new(path).parent() {
        std::fs::create_dir_all(dir)?;
    }
    std::fs::write(path, s)
}

pub fn read_replay(path: &str, names_of: &dyn Fn(&str) -> Option<&'static [&'static str]>) -> Result<Replay, String> {
    let text = std::fs::read_to_string(path).map_err(|e| format!("cannot read {}: {}", path, e))?;
    let mut lines = text.lines();
    let first = lines.next().unwrap_or("");
    if first.trim() != "renet-sim replay v1" {
        return Err(format!("{}: not a replay file", path));
    }
    let mut cfg = Cfg::new("", "");
    let mut seed = 0u64;
    let mut expect = None;
    let mut ops = Vec::new();
    let mut note = String::new();
    let mut names: Option<&'static [&'static str]> = None;
    for l in lines {
        let l = l.trim();
        if l.is_empty() {
            continue;
        }
        if let Some(rest) = l.strip_prefix('#') {
            note.push_str(rest.trim());
            note.push('\n');
            continue;
        }
        let (w, rest) = l.split_once(' ').unwrap_or((l, ""));
        match w {
            "engine" => {
                cfg.engine = rest.trim().to_string();
                names = names_of(&cfg.engine);
                if names.is_none() {
                    return Err(format!("{}: unknown engine {}", path, cfg.engine));
                }
            }
            "family" => cfg.family = rest.trim().to_string(),
            "seed" => seed = rest.trim().parse().map_err(|_| "bad seed".to_string())?,
            "cfg" => {
                for kv in rest.split_whitespace() {
                    let (k, v) = kv.split_once('=').ok_or_else(|| format!("bad cfg item {}", kv))?;
                    cfg.kv.push((k.to_string(), v.parse().map_err(|_| format!("bad cfg value {}", kv))?));
                }
            }
            "expect" => expect = Some(rest.trim().to_string()),
            "op" => {
                let names = names.ok_or("op before engine")?;
                let f: Vec<&str> = rest.split_whitespace().collect();
                if f.len() != 5 {
                    return Err(format!("bad op line: {}", l));
                }
                let k = names.iter().position(|n| *n == f[0]).ok_or_else(|| format!("unknown op {}", f[0]))? as u8;
                let p = |s: &str| s.parse::<u64>().map_err(|_| format!("bad op arg in: {}", l));
                ops.push(Op::new(k, p(f[1])?, p(f[2])?, p(f[3])?, p(f[4])?));
            }
            "end" => break,
            _ => return Err(format!("bad line: {}", l)),
        }
    }
    Ok(Replay { cfg, seed, expect, note, ops })
}
