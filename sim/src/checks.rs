//! Which families decide which property, with run counts per tier, and per-property configuration bias.
use crate::core::{Cfg, MakeWorld};
use crate::prng::Rng;

pub struct Engine {
    pub name: &'static str,
    pub make: MakeWorld,
    pub gen_cfg: fn(&str, &mut Rng) -> Cfg,
    pub names: &'static [&'static str],
    pub real: &'static [&'static str],
    pub stub: &'static [&'static str],
}

pub fn engine(name: &str) -> Option<Engine> {
    match name {
        "A" => Some(Engine {
            name: "A",
            make: crate::eng_a::make_world,
            gen_cfg: crate::eng_a::gen_cfg,
            names: crate::eng_a::OP_NAMES,
            real: &["renet::RenetServer", "renet::RenetClient (channels, slicing, acks, packet codec)"],
            stub: &["network between get_packets_to_send and process_packet (simulated packet pools)", "clock (update(dt) driven by the simulator)"],
        }),
        "B" => Some(Engine {
            name: "B",
            make: crate::eng_b::make_world,
            gen_cfg: crate::eng_b::gen_cfg,
            names: crate::eng_b::OP_NAMES,
            real: &["renetcode::NetcodeServer", "renetcode::NetcodeClient", "renetcode packet/token codecs, replay window, AEAD via chacha20poly1305"],
            stub: &[
                "datagram network with source addresses (simulated pools, on-path adversary)",
                "clocks (update(dt) driven by the simulator)",
                "OS randomness behind generate_random_bytes (seeded stream, hook H5)",
                "token backend (the harness issues connect tokens with the library's ConnectToken::generate)",
            ],
        }),
        "C" => Some(Engine {
            name: "C",
            make: crate::eng_c::make_world,
            gen_cfg: crate::eng_c::gen_cfg,
            names: crate::eng_c::OP_NAMES,
            real: &[
                "renet_netcode::NetcodeServerTransport + renet::RenetServer",
                "renet_netcode::NetcodeClientTransport + renet::RenetClient",
                "renetcode (handshake, AEAD, replay window) underneath both transports",
            ],
            stub: &[
                "std::net::UdpSocket replaced by renet_netcode::verif_net::UdpSocket (hook H7): in-memory datagram endpoints with an in-path relay and armed socket-call errors",
                "clocks (update(dt) driven by the simulator)",
                "OS randomness (seeded stream, hook H5)",
            ],
        }),
        "D" => Some(Engine {
            name: "D",
            make: crate::eng_d::make_world,
            gen_cfg: crate::eng_d::gen_cfg,
            names: crate::eng_d::OP_NAMES,
            real: &["renetcode::NetcodeServer with its tables at their real sizes (up to the 1024-client ceiling)", "renetcode::NetcodeClient (up to 1100 of them)"],
            stub: &[
                "datagram network (immediate, loss-free hand-over; the schedule decides the order of handshake stages)",
                "clocks (update(dt) driven by the simulator)",
                "OS randomness (seeded stream, hook H5)",
                "token backend (ConnectToken::generate called by the harness)",
            ],
        }),
        _ => None,
    }
}

pub fn names_of(engine_name: &str) -> Option<&'static [&'static str]> {
    engine(engine_name).map(|e| e.names)
}

pub struct Plan {
    pub engine: &'static str,
    pub family: &'static str,
    pub quick: u64,
    pub thorough: u64,
    pub max_ops: usize,
}

pub const ALL_PROPS: &[&str] = &[
    "C01", "C02", "C03", "C04", "C05", "C06", "C07", "C08", "C09", "C10", "C11", "C12", "C13", "C14", "C15", "C16", "C17", "C18", "C19", "C20",
];

pub fn plans(prop: &str) -> Vec<Plan> {
    let p = |engine, family, quick, thorough, max_ops| Plan { engine, family, quick, thorough, max_ops };
    match prop {
        "C01" | "C02" | "C03" | "C08" => vec![p("A", "lossy", 36_000, 1_000_000, 400)],
        "C09" => vec![p("A", "lossy", 30_000, 1_000_000, 600), p("A", "budget", 9_000, 300_000, 400)],
        "C13" => vec![p("A", "lossy", 30_000, 1_000_000, 500), p("B", "session", 9_000, 300_000, 250)],
        "C16" => vec![p("A", "lossy", 24_000, 800_000, 400), p("A", "hostile", 12_000, 400_000, 300), p("B", "hostile", 9_000, 300_000, 250)],
        "C20" => vec![p("C", "fullstack", 40_000, 1_000_000, 400)],
        "C04" => vec![p("B", "session", 36_000, 1_500_000, 300)],
        "C05" => vec![p("B", "handshake", 36_000, 1_500_000, 250)],
        "C07" => vec![p("B", "hostile", 36_000, 1_500_000, 250)],
        "C10" => vec![p("B", "handshake", 48_000, 800_000, 300), p("B", "session", 12_000, 400_000, 300), p("D", "scale", 1_500, 40_000, 60)],
        "C17" => vec![p("B", "handshake", 18_000, 600_000, 250), p("B", "tamper", 600, 12_000, 120)],
        "C18" => vec![p("B", "liveness", 24_000, 1_000_000, 300), p("B", "handshake", 12_000, 400_000, 250), p("D", "scale", 1_000, 30_000, 60)],
        "C19" => vec![p("B", "hostile", 18_000, 600_000, 250), p("B", "handshake", 18_000, 600_000, 250)],
        "C14" | "C15" => vec![p("A", "budget", 30_000, 1_000_000, 400), p("A", "lossy", 12_000, 400_000, 400)],
        "C06" => vec![p("A", "hostile", 60_000, 2_000_000, 300)],
        "C11" => vec![p("A", "multi", 30_000, 1_000_000, 500), p("A", "budget", 15_000, 300_000, 400)],
        "C12" => vec![p("A", "api", 45_000, 2_000_000, 300)],
        _ => vec![],
    }
}

/// Property-specific bias applied to a generated configuration so that the runs of a check exercise its oracles.
pub fn bias_cfg(prop: &str, cfg: &mut Cfg, rng: &mut Rng) {
    if cfg.engine == "B" && prop == "C04" && cfg.family == "session" && rng.chance(1, 4) {
        // a contended server: more clients than slots, so that refusals and late handshake replies are part of the history
        cfg.set("maxcl", 1);
        cfg.set("nslots", rng.range(2, 4));
        cfg.set("adv", rng.range(1, 2));
    }
    if cfg.engine == "B" {
        if prop == "C10" && cfg.family == "handshake" && rng.chance(1, 2) {
            // capacity races: many identities, a small table, limit moved at run time, a clean network
            cfg.set("nslots", 6);
            cfg.set("nids", *rng.pick(&[2u64, 3, 6, 6]));
            cfg.set("maxcl", rng.range(1, 3));
            cfg.set("loss", 0);
            cfg.set("adv", *rng.pick(&[0u64, 0, 1]));
            cfg.set("dead", 0);
            cfg.set("setmax", 1);
            cfg.set("expire", 300);
        }
        return;
    }
    if cfg.engine != "A" {
        return;
    }
    let force_kind = |cfg: &mut Cfg, rng: &mut Rng, kind: u64| {
        if cfg.get("localcl") == 1 {
            // local clients are built from the server's channel list: both lists stay identical
            let n = cfg.get("nsch");
            let has = (0..n).any(|k| cfg.get(&format!("sch{}_kind", k)) == kind);
            if !has && n > 0 {
                let k = rng.below(n);
                cfg.set(&format!("sch{}_kind", k), kind);
                cfg.set(&format!("cch{}_kind", k), kind);
            }
            return;
        }
        for prefix in ["sch", "cch"] {
            let n = cfg.get(&format!("n{}", prefix));
            let has = (0..n).any(|k| cfg.get(&format!("{}{}_kind", prefix, k)) == kind);
            if !has && n > 0 {
                let k = rng.below(n);
                cfg.set(&format!("{}{}_kind", prefix, k), kind);
            }
        }
    };
    match prop {
        "C01" => force_kind(cfg, rng, 1),
        "C02" => {
            force_kind(cfg, rng, 2);
            if rng.chance(1, 2) {
                cfg.set("recvbias", 2);
            }
            if rng.chance(1, 3) {
                cfg.set("prompt", 1);
            }
        }
        "C03" => {
            let k = rng.below(3);
            force_kind(cfg, rng, k);
        }
        "C08" | "C16" => {
            if rng.chance(1, 3) {
                cfg.set("burst", 1);
                cfg.set("loss", *rng.pick(&[20u64, 40, 80]));
            }
            { let k = 1 + rng.below(2); force_kind(cfg, rng, k); }
        }
        "C09" => {
            if rng.chance(1, 2) {
                cfg.set("recvbias", 2);
                cfg.set("prompt", 1);
            }
            { let k = 1 + rng.below(2); force_kind(cfg, rng, k); }
        }
        "C13" => {
            if rng.chance(1, 2) {
                cfg.set("burst", 1);
            }
            if rng.chance(1, 2) {
                cfg.set("lenmode", 1);
            }
            if rng.chance(1, 2) {
                cfg.set("tele_seq", *rng.pick(&[60u64, 16_380, (1 << 30) - 40, (1u64 << 62) - 100_000_000]));
                cfg.set("tele_mid", *rng.pick(&[60u64, 16_380, (1 << 30) - 40, (1u64 << 62) - 100_000_000]));
            }
        }
        "C14" | "C15" => { let k = 1 + rng.below(2); force_kind(cfg, rng, k); }
        _ => {}
    }
}

pub fn level_text(prop: &str) -> (&'static str, &'static str) {
    let _ = prop;
    (
        "exploration",
        "seeded deterministic simulation with fault injection: real endpoints, simulated network/clock/adversary, oracles = reference models + invariants; sampled, not exhaustive",
    )
}
