//! Reference models and oracles of engine A: what a flush may contain, what a delivery changes, what may be obtained.
use super::*;
use renet::verif::Packet;

pub fn decode(bytes: &[u8]) -> Result<Packet, renet::verif::SerializationError> {
    let mut o = octets_shim::Octets::with_slice(bytes);
    Packet::from_bytes(&mut o)
}

/// renet's codec takes `octets` types; the sim crate reaches them through renet's dependency graph.
pub mod octets_shim {
    pub use octets::{Octets, OctetsMut};
}

pub fn reason_name(r: &DisconnectReason) -> String {
    use DisconnectReason::*;
    match r {
        Transport => "Transport".into(),
        DisconnectedByClient => "DisconnectedByClient".into(),
        DisconnectedByServer => "DisconnectedByServer".into(),
        PacketSerialization(e) => format!("PacketSerialization({:?})", e),
        PacketDeserialization(e) => format!("PacketDeserialization({:?})", e),
        ReceivedInvalidChannelId(_) => "ReceivedInvalidChannelId".into(),
        SendChannelError { error, .. } => format!("SendChannelError({:?})", error),
        ReceiveChannelError { error, .. } => format!("ReceiveChannelError({:?})", error),
    }
}

pub fn kind_name(k: u8) -> &'static str {
    match k {
        UNREL => "Unreliable",
        REL_ORD => "ReliableOrdered",
        _ => "ReliableUnordered",
    }
}

/// Ranges (start, end_exclusive) of a sequence set.
pub fn ranges_of(set: &BTreeSet<u64>) -> Vec<(u64, u64)> {
    let mut out: Vec<(u64, u64)> = Vec::new();
    for &s in set {
        if let Some(last) = out.last_mut() {
            if last.1 == s {
                last.1 = s + 1;
                continue;
            }
        }
        out.push((s, s + 1));
    }
    out
}

/// The harness's own reading of an Ack packet's bytes (type 4, then QUIC-style varints: sequence, last element of the newest
/// range, its size, number of further ranges, then (gap, size) pairs going down), independent of the library's decoder:
/// what a packet acknowledges is judged from its bytes, not from what the receiving side happens to make of them.
pub fn wire_ack_ranges(bytes: &[u8]) -> Option<Vec<std::ops::Range<u64>>> {
    fn varint(b: &[u8], pos: &mut usize) -> Option<u64> {
        let first = *b.get(*pos)?;
        let len = 1usize << (first >> 6);
        let mut v = (first & 0x3F) as u64;
        for k in 1..len {
            v = (v << 8) | *b.get(*pos + k)? as u64;
        }
        *pos += len;
        Some(v)
    }
    if bytes.first() != Some(&4) {
        return None;
    }
    let mut pos = 1;
    let _sequence = varint(bytes, &mut pos)?;
    let last_elem = varint(bytes, &mut pos)?;
    let size = varint(bytes, &mut pos)?;
    let remaining = varint(bytes, &mut pos)?;
    let mut start = last_elem.checked_sub(size)?;
    let mut out = vec![start..last_elem.checked_add(1)?];
    for _ in 0..remaining {
        let gap = varint(bytes, &mut pos)?;
        let size = varint(bytes, &mut pos)?;
        let end = start.checked_sub(gap)?.checked_sub(1)?;
        let st = end.checked_sub(1)?.checked_sub(size)?;
        out.push(st..end);
        start = st;
    }
    if pos != bytes.len() {
        return None;
    }
    out.reverse();
    Some(out)
}

impl WorldA {
    fn chan_index(&self, i: usize, d: usize, channel_id: u8) -> Option<usize> {
        self.conns[i].st[d].iter().position(|c| c.cfg.id == channel_id)
    }

    /// Model: endpoint (i, side) receives sequence `seq`; keep only the newest 64 ranges.
    fn pend_insert(&mut self, i: usize, side: usize, seq: u64, obs: &mut Obs) {
        let ep = &mut self.conns[i].ep[side];
        ep.handed_seqs.insert(seq);
        // the number of ranges is kept incrementally (a message of 65 000 slices makes recounting per arrival quadratic)
        if ep.pend.insert(seq) {
            let has_prev = seq > 0 && ep.pend.contains(&(seq - 1));
            let has_next = seq < u64::MAX && ep.pend.contains(&(seq + 1));
            ep.pend_nr = ep.pend_nr + 1 - has_prev as usize - has_next as usize;
        }
        debug_assert!(ep.pend.len() > 512 || ep.pend_nr == ranges_of(&ep.pend).len());
        if ep.pend_nr > 8 {
            obs.count("probe.ack_ranges_gt8");
        }
        if ep.pend_nr > 64 {
            obs.count("probe.ack_ranges_gt64_capped");
            let r = ranges_of(&ep.pend);
            let drop_n = r.len() - 64;
            for (s, e) in r.iter().take(drop_n) {
                for x in *s..*e {
                    ep.pend.remove(&x);
                }
            }
            ep.pend_nr = 64;
        }
    }

    /// Called with the output of get_packets_to_send of endpoint (i, side). Updates the sender model and checks
    /// C13 (sizes), C14 (budget, priority), C15 (retransmission timing), C16 (ack = recorded set, codec round trip), C03 (wire content).
    pub fn on_flush(&mut self, i: usize, side: usize, pkts: &[Vec<u8>], pend_before: Vec<std::ops::Range<u64>>, obs: &mut Obs) {
        let d = if side == CL { 0 } else { 1 };
        let tainted = self.conns[i].tainted;
        let now = self.conns[i].ep[side].clock_ms;
        self.conns[i].ep[side].flushes += 1;
        let mut budget_used: u64 = 0;
        let nch = self.conns[i].st[d].len();
        let mut used_by_chan: Vec<u64> = vec![0; nch];
        let mut sent_items: Vec<(usize, usize, usize)> = Vec::new(); // (ch, idx, item)
        let mut unrel_seen: Vec<Vec<Bytes>> = vec![Vec::new(); nch];
        let mut sliced_groups: BTreeMap<(usize, u64), Vec<Option<Bytes>>> = BTreeMap::new();

        for p in pkts {
            obs.log.bytes(p);
            obs.count("oracle.C13.size");
            if p.len() > 1300 {
                obs.violate("C13", "renet-packet-too-long", "gt1300", format!("packet of {} bytes from conn {} side {}", p.len(), i, side));
            }
            let pkt = match decode(p) {
                Ok(pk) => pk,
                Err(e) => {
                    obs.violate("C16", "emitted-packet-undecodable", &format!("{:?}", e), format!("conn {} side {}: {:02x?}", i, side, &p[..p.len().min(24)]));
                    continue;
                }
            };
            // C16: decode -> encode -> decode stable, and encode reproduces the bytes
            {
                obs.count("oracle.C16.roundtrip");
                let mut buf = [0u8; 1500];
                let mut o = octets_shim::OctetsMut::with_slice(&mut buf);
                match pkt.to_bytes(&mut o) {
                    Ok(n) => {
                        if &buf[..n] != p.as_slice() {
                            obs.violate("C16", "reencode-differs", "renet-packet", format!("conn {} side {}", i, side));
                        }
                    }
                    Err(e) => obs.violate("C16", "reencode-fails", &format!("{:?}", e), format!("conn {} side {}", i, side)),
                }
            }
            if tainted {
                continue;
            }
            let seq = pkt.sequence();
            if let Some(ns) = self.conns[i].ep[side].next_seq {
                if seq != ns {
                    obs.violate("C16", "sequence-not-consecutive", "emit", format!("expected {} got {}", ns, seq));
                }
            }
            self.conns[i].ep[side].next_seq = Some(seq + 1);
            match pkt {
                Packet::SmallReliable { channel_id, messages, .. } => {
                    let Some(ch) = self.chan_index(i, d, channel_id) else {
                        obs.violate("C03", "emitted-unknown-channel", "SmallReliable", format!("channel {}", channel_id));
                        continue;
                    };
                    let mut idxs = Vec::new();
                    for (mid, bytes) in messages {
                        let c = &mut self.conns[i].st[d][ch];
                        let idx = mid.wrapping_sub(c.base_id) as usize;
                        if mid < c.base_id || idx >= c.msgs.len() || c.msgs[idx].bytes != bytes || c.msgs[idx].nsl != 0 {
                            obs.violate("C03", "wire-message-mismatch", kind_name(c.cfg.kind), format!("conn {} dir {} ch {} id {}", i, d, ch, mid));
                            continue;
                        }
                        budget_used += bytes.len() as u64;
                        used_by_chan[ch] += bytes.len() as u64;
                        idxs.push(idx);
                        sent_items.push((ch, idx, 0));
                    }
                    self.conns[i].ep[side].sent.insert(seq, (now, SentInfo::Rel { ch, idxs }));
                }
                Packet::ReliableSlice { channel_id, slice, .. } => {
                    let Some(ch) = self.chan_index(i, d, channel_id) else {
                        obs.violate("C03", "emitted-unknown-channel", "ReliableSlice", format!("channel {}", channel_id));
                        continue;
                    };
                    let c = &mut self.conns[i].st[d][ch];
                    let idx = slice.message_id.wrapping_sub(c.base_id) as usize;
                    let ok = slice.message_id >= c.base_id
                        && idx < c.msgs.len()
                        && c.msgs[idx].nsl == slice.num_slices
                        && slice.slice_index < slice.num_slices
                        && {
                            let m = &c.msgs[idx];
                            let st = slice.slice_index * SLICE;
                            let en = st + m.item_len(slice.slice_index);
                            m.bytes[st..en] == slice.payload[..]
                        };
                    if !ok {
                        obs.violate("C03", "wire-slice-mismatch", kind_name(c.cfg.kind), format!("conn {} dir {} ch {} id {} slice {}/{}", i, d, ch, slice.message_id, slice.slice_index, slice.num_slices));
                        continue;
                    }
                    budget_used += slice.payload.len() as u64;
                    used_by_chan[ch] += slice.payload.len() as u64;
                    sent_items.push((ch, idx, slice.slice_index));
                    self.conns[i].ep[side].sent.insert(seq, (now, SentInfo::Slice { ch, idx, slice: slice.slice_index }));
                }
                Packet::SmallUnreliable { channel_id, messages, .. } => {
                    let Some(ch) = self.chan_index(i, d, channel_id) else {
                        obs.violate("C03", "emitted-unknown-channel", "SmallUnreliable", format!("channel {}", channel_id));
                        continue;
                    };
                    for m in messages {
                        budget_used += m.len() as u64;
                        used_by_chan[ch] += m.len() as u64;
                        unrel_seen[ch].push(m);
                    }
                    self.conns[i].ep[side].sent.insert(seq, (now, SentInfo::None));
                }
                Packet::UnreliableSlice { channel_id, slice, .. } => {
                    let Some(ch) = self.chan_index(i, d, channel_id) else {
                        obs.violate("C03", "emitted-unknown-channel", "UnreliableSlice", format!("channel {}", channel_id));
                        continue;
                    };
                    budget_used += slice.payload.len() as u64;
                    used_by_chan[ch] += slice.payload.len() as u64;
                    let g = sliced_groups.entry((ch, slice.message_id)).or_insert_with(|| vec![None; slice.num_slices]);
                    if slice.slice_index < g.len() && g.len() == slice.num_slices {
                        g[slice.slice_index] = Some(slice.payload.clone());
                    } else {
                        obs.violate("C03", "wire-slice-mismatch", "Unreliable", format!("slice {}/{}", slice.slice_index, slice.num_slices));
                    }
                    self.conns[i].ep[side].sent.insert(seq, (now, SentInfo::None));
                }
                Packet::Ack { ack_ranges, .. } => {
                    obs.count("oracle.C16.ack_set");
                    // (0) the library's decoder and an independent reading of the same bytes agree
                    match wire_ack_ranges(p) {
                        Some(w) if w == ack_ranges => {}
                        Some(w) => obs.violate("C16", "ack-decoder-disagrees-with-wire", "emit", format!("{} ranges on the wire, {} decoded", w.len(), ack_ranges.len())),
                        None => obs.violate("C16", "ack-decoder-disagrees-with-wire", "unreadable", format!("{:02x?}", &p[..p.len().min(24)])),
                    }
                    // (1) the packet denotes exactly the recorded set
                    if ack_ranges != pend_before {
                        obs.violate("C16", "ack-differs-from-recorded-set", "emit", format!("packet {:?} recorded {:?}", ack_ranges, pend_before));
                    }
                    // (2) recorded set well-formed: sorted, disjoint, non-adjacent, non-empty ranges
                    let mut wf = true;
                    for (j, r) in ack_ranges.iter().enumerate() {
                        if r.start >= r.end {
                            wf = false;
                        }
                        if j > 0 && ack_ranges[j - 1].end >= r.start {
                            wf = false;
                        }
                    }
                    if !wf {
                        obs.violate("C16", "recorded-set-malformed", "ranges", format!("{:?}", ack_ranges));
                    }
                    if ack_ranges.len() > 64 {
                        obs.violate("C16", "recorded-set-more-than-64-ranges", "ranges", format!("{} ranges", ack_ranges.len()));
                        // C13: the Ack packet stays below the carrier limit only because the list is capped
                        obs.violate("C13", "ack-ranges-above-cap", "emit", format!("{} ranges in one ack packet", ack_ranges.len()));
                    }
                    // (3) equals the reference model of the pending set
                    let model: Vec<std::ops::Range<u64>> = ranges_of(&self.conns[i].ep[side].pend).into_iter().map(|(s, e)| s..e).collect();
                    if model != ack_ranges {
                        obs.violate("C16", "ack-differs-from-model", "emit", format!("packet {:?} model {:?}", ack_ranges, model));
                    }
                    // (4) C08: never acknowledges a sequence that was not received
                    obs.count("oracle.C08.ack_subset");
                    let handed = &self.conns[i].ep[side].handed_seqs;
                    let mut total: u64 = 0;
                    'outer: for r in &ack_ranges {
                        for s in r.clone() {
                            total += 1;
                            if total > 100_000 {
                                break 'outer;
                            }
                            if !handed.contains(&s) {
                                obs.violate("C08", "acks-unreceived-sequence", "emit", format!("sequence {} in {:?}", s, r));
                                break 'outer;
                            }
                        }
                    }
                    let shape_single = ack_ranges.iter().filter(|r| r.end - r.start == 1).count();
                    if shape_single > 0 {
                        obs.count("probe.ack_single_element_range");
                    }
                    if ack_ranges.windows(2).any(|w| w[1].start - w[0].end == 1) {
                        obs.count("probe.ack_gap_of_one");
                    }
                    let largest = ack_ranges.last().map(|r| r.end - 1).unwrap_or(0);
                    self.conns[i].ep[side].sent.insert(seq, (now, SentInfo::Ack { largest }));
                }
            }
        }
        if tainted {
            return;
        }

        // ---- unreliable: every emitted message was queued for this very flush (C14d / C03) ----
        for ch in 0..nch {
            if self.conns[i].st[d][ch].reliable() {
                continue;
            }
            let queue: Vec<usize> = std::mem::take(&mut self.conns[i].st[d][ch].unrel_queue);
            let mut remaining: Vec<usize> = queue.clone();
            for m in &unrel_seen[ch] {
                let c = &self.conns[i].st[d][ch];
                if let Some(pos) = remaining.iter().position(|&ix| c.msgs[ix].bytes == *m && c.msgs[ix].nsl == 0) {
                    remaining.remove(pos);
                } else {
                    obs.violate("C14", "unreliable-emitted-not-queued", "small", format!("conn {} dir {} ch {} len {}", i, d, ch, m.len()));
                }
            }
            let groups: Vec<(u64, Vec<Option<Bytes>>)> =
                sliced_groups.iter().filter(|((c, _), _)| *c == ch).map(|((_, id), g)| (*id, g.clone())).collect();
            for (sid, g) in groups {
                obs.count("oracle.C14.unreliable_whole");
                if g.iter().any(|x| x.is_none()) {
                    obs.violate("C14", "unreliable-sliced-partially-emitted", "slices", format!("conn {} dir {} ch {} sliced id {}", i, d, ch, sid));
                    continue;
                }
                let mut whole = Vec::new();
                for s in g.iter().flatten() {
                    whole.extend_from_slice(s);
                }
                let whole = Bytes::from(whole);
                let c = &mut self.conns[i].st[d][ch];
                if let Some(pos) = remaining.iter().position(|&ix| c.msgs[ix].bytes == whole) {
                    remaining.remove(pos);
                    // C03: the receiver tells sliced unreliable messages apart by this id alone and keeps a partial one for
                    // three seconds, so an id that comes back can stitch two messages together
                    obs.count("oracle.C03.unreliable_sliced_id_fresh");
                    if c.sliced_tx.contains_key(&sid) {
                        obs.violate("C03", "unreliable-sliced-id-reused", "emit", format!("conn {} dir {} ch {} sliced id {} was used by an earlier message of this run", i, d, ch, sid));
                    }
                    c.sliced_tx.insert(sid, SlicedTx { content: whole, deliveries: vec![0; g.len()] });
                } else {
                    obs.violate("C14", "unreliable-emitted-not-queued", "sliced", format!("conn {} dir {} ch {} len {}", i, d, ch, whole.len()));
                }
            }
            if !remaining.is_empty() {
                obs.count_by("probe.unreliable_dropped_by_tick_budget", remaining.len() as u64);
            }
            // budget whole again after every flush
            if let Some(ep) = self.ep_ref(i, side) {
                obs.count("oracle.C09.unreliable_send_budget_whole");
                let a = ep.channel_available_memory(self.conns[i].st[d][ch].cfg.id);
                let max = self.conns[i].st[d][ch].cfg.max_mem;
                if a != max {
                    obs.violate("C09", "unreliable-send-budget-not-whole-after-flush", "Unreliable", format!("available {} max {}", a, max));
                }
            }
        }

        // ---- C14a: per-tick budget ----
        obs.count("oracle.C14.budget");
        if budget_used > self.avail {
            obs.violate("C14", "tick-budget-exceeded", "payload-bytes", format!("{} > {} conn {} side {}", budget_used, self.avail, i, side));
        }
        let leftover = self.avail.saturating_sub(budget_used);

        // ---- C15 / C14b over reliable items ----
        for &(ch, idx, item) in &sent_items {
            let c = &mut self.conns[i].st[d][ch];
            let resend = c.cfg.resend_ms;
            let m = &mut c.msgs[idx];
            obs.count("oracle.C15.tx");
            if m.acked[item] {
                obs.violate("C15", "retransmitted-after-ack", kind_name(c.cfg.kind), format!("conn {} dir {} ch {} msg {} item {}", i, d, ch, idx, item));
            }
            if let Some(last) = m.last_tx[item] {
                obs.count("probe.retransmission");
                if m.nsl > 0 && m.acked.iter().any(|a| *a) {
                    obs.count("probe.retransmit_partially_acked_sliced");
                }
                if now - last < resend {
                    obs.violate("C15", "retransmitted-early", kind_name(c.cfg.kind), format!("after {} ms < resend {} ms (msg {} item {})", now - last, resend, idx, item));
                }
                if now == last && resend > 0 {
                    obs.violate("C15", "item-twice-in-one-flush", kind_name(c.cfg.kind), format!("msg {} item {}", idx, item));
                }
            }
            m.last_tx[item] = Some(now);
            m.ntx[item] += 1;
        }
        // eligible but unsent items
        let sent_set: BTreeSet<(usize, usize, usize)> = sent_items.iter().cloned().collect();
        for ch in 0..nch {
            if !self.conns[i].st[d][ch].reliable() {
                continue;
            }
            let later: u64 = used_by_chan[ch + 1..].iter().sum();
            let c = &self.conns[i].st[d][ch];
            let resend = c.cfg.resend_ms;
            for (idx, m) in c.msgs.iter().enumerate() {
                if m.released {
                    continue;
                }
                for item in 0..m.items() {
                    if m.acked[item] || sent_set.contains(&(ch, idx, item)) {
                        continue;
                    }
                    let eligible = match m.last_tx[item] {
                        None => true,
                        Some(l) => now - l >= resend,
                    };
                    if !eligible {
                        continue;
                    }
                    obs.count("oracle.C15.prompt");
                    let need = if m.nsl == 0 { m.bytes.len() as u64 } else { SLICE as u64 };
                    if leftover >= need {
                        obs.violate(
                            "C15",
                            "eligible-item-not-sent-though-budget-left",
                            kind_name(c.cfg.kind),
                            format!("conn {} dir {} ch {} msg {} item {} need {} leftover {}", i, d, ch, idx, item, need, leftover),
                        );
                        // C11: traffic of one channel held back although the tick budget was not used up, while another channel
                        // of the same connection is merely waiting for acknowledgements
                        let other_waiting = self.conns[i].st[d].iter().enumerate().any(|(k2, c2)| {
                            k2 != ch && c2.reliable() && c2.msgs.iter().any(|m2| !m2.released && (0..m2.items()).any(|it| !m2.acked[it] && m2.last_tx[it].is_some()))
                        });
                        obs.count("oracle.C11.channel_isolation");
                        if other_waiting {
                            obs.violate(
                                "C11",
                                "channel-delayed-by-stalled-traffic-of-another-channel",
                                kind_name(c.cfg.kind),
                                format!("conn {} dir {} ch {} msg {} withheld with {} budget bytes left while another channel waits for acks", i, d, ch, idx, leftover),
                            );
                        }
                    } else if leftover + later >= need {
                        obs.violate(
                            "C14",
                            "later-channel-served-before-earlier-eligible-item",
                            kind_name(c.cfg.kind),
                            format!("conn {} dir {} ch {} msg {} item {} need {} leftover {} later {}", i, d, ch, idx, item, need, leftover, later),
                        );
                    } else {
                        obs.count("probe.budget_denied_transmission");
                    }
                }
            }
        }
    }

    /// A genuine, unmodified packet of direction d was handed to its receiver while that endpoint was alive.
    pub fn on_deliver_genuine(&mut self, i: usize, d: usize, bytes: &[u8], obs: &mut Obs) {
        let rside = if d == 0 { SV } else { CL };
        let pkt = match decode(bytes) {
            Ok(p) => p,
            Err(_) => return,
        };
        let seq = pkt.sequence();
        self.pend_insert(i, rside, seq, obs);
        match pkt {
            Packet::SmallReliable { channel_id, messages, .. } => {
                if let Some(ch) = self.chan_index(i, d, channel_id) {
                    let c = &mut self.conns[i].st[d][ch];
                    for (mid, _) in messages {
                        let idx = mid.wrapping_sub(c.base_id) as usize;
                        if mid >= c.base_id && idx < c.msgs.len() {
                            if c.msgs[idx].obtained > 0 && c.msgs[idx].handed[0] > 0 {
                                obs.count("probe.duplicate_after_consumption");
                            }
                            c.msgs[idx].handed[0] += 1;
                        }
                    }
                }
            }
            Packet::ReliableSlice { channel_id, slice, .. } => {
                if let Some(ch) = self.chan_index(i, d, channel_id) {
                    let c = &mut self.conns[i].st[d][ch];
                    let idx = slice.message_id.wrapping_sub(c.base_id) as usize;
                    if slice.message_id >= c.base_id && idx < c.msgs.len() && slice.slice_index < c.msgs[idx].handed.len() {
                        if c.msgs[idx].obtained > 0 {
                            obs.count("probe.duplicate_slice_after_consumption");
                            if c.cfg.kind == REL_UNORD && c.msgs[..idx].iter().any(|m| m.obtained == 0) {
                                obs.count("probe.dup_slice_after_consumption_with_older_missing");
                            }
                        }
                        c.msgs[idx].handed[slice.slice_index] += 1;
                    }
                }
            }
            Packet::SmallUnreliable { channel_id, messages, .. } => {
                if let Some(ch) = self.chan_index(i, d, channel_id) {
                    let c = &mut self.conns[i].st[d][ch];
                    for m in messages {
                        *c.allow_small.entry(m).or_insert(0) += 1;
                    }
                }
            }
            Packet::UnreliableSlice { channel_id, slice, .. } => {
                if let Some(ch) = self.chan_index(i, d, channel_id) {
                    let c = &mut self.conns[i].st[d][ch];
                    if let Some(tx) = c.sliced_tx.get_mut(&slice.message_id) {
                        if slice.slice_index < tx.deliveries.len() {
                            tx.deliveries[slice.slice_index] += 1;
                        }
                    }
                }
            }
            Packet::Ack { ack_ranges, .. } => {
                // the receiver of this ack is the sender of the opposite direction; what the packet acknowledges is read
                // from its bytes by the harness's own decoder (a decoder that drops ranges must not hide them from the model)
                let ack_ranges = wire_ack_ranges(bytes).unwrap_or(ack_ranges);
                let od = 1 - d;
                let mut newly: Vec<u64> = Vec::new();
                for r in &ack_ranges {
                    for (&s, _) in self.conns[i].ep[rside].sent.range(r.clone()) {
                        newly.push(s);
                    }
                }
                for s in newly {
                    let Some((_, info)) = self.conns[i].ep[rside].sent.remove(&s) else { continue };
                    match info {
                        SentInfo::Rel { ch, idxs } => {
                            for idx in idxs {
                                let m = &mut self.conns[i].st[od][ch].msgs[idx];
                                if !m.acked[0] {
                                    m.acked[0] = true;
                                    m.released = true;
                                }
                            }
                        }
                        SentInfo::Slice { ch, idx, slice } => {
                            let m = &mut self.conns[i].st[od][ch].msgs[idx];
                            if !m.acked[slice] {
                                m.acked[slice] = true;
                                if m.acked.iter().all(|a| *a) {
                                    m.released = true;
                                }
                            }
                        }
                        SentInfo::Ack { largest } => {
                            obs.count("probe.ack_of_ack_trims");
                            let ep = &mut self.conns[i].ep[rside];
                            let keep = ep.pend.split_off(&(largest + 1));
                            ep.pend = keep;
                            ep.pend_nr = ranges_of(&ep.pend).len();
                        }
                        SentInfo::None => {}
                    }
                }
            }
        }
    }

    /// Model of update(): sender clock advances, sent packets older than 3 s are forgotten.
    pub fn on_update(&mut self, i: usize, side: usize, dt: u64) {
        let ep = &mut self.conns[i].ep[side];
        ep.clock_ms += dt;
        let now = ep.clock_ms;
        let mut gone = Vec::new();
        for (&s, (at, _)) in ep.sent.iter() {
            if now - *at >= 3000 {
                gone.push(s);
            } else {
                break;
            }
        }
        for s in gone {
            ep.sent.remove(&s);
        }
    }

    /// The application of endpoint (receiver of d) obtained `bytes` from channel index ch.
    pub fn on_obtain(&mut self, i: usize, d: usize, ch: usize, bytes: &Bytes, obs: &mut Obs) {
        obs.log.u64(bytes.len() as u64);
        obs.log.bytes(&bytes[..bytes.len().min(16)]);
        self.conns[i].st[d][ch].n_obtained += 1;
        if self.conns[i].tainted {
            return;
        }
        let kind = self.conns[i].st[d][ch].cfg.kind;
        let kn = kind_name(kind);
        if self.fam == Fam::Multi {
            // C11: every obtained message names its connection (or is a broadcast recorded for this connection)
            obs.count("oracle.C11.recipient");
        }
        // where else does this content exist? (for discriminators)
        let elsewhere = |w: &WorldA| -> &'static str {
            for (ci, c) in w.conns.iter().enumerate() {
                for dd in 0..2 {
                    for (k, cc) in c.st[dd].iter().enumerate() {
                        if (ci, dd, k) != (i, d, ch) && bytes.len() >= 8 && cc.by_content.contains_key(bytes) {
                            return if ci != i {
                                "cross-connection"
                            } else if dd != d {
                                "cross-direction"
                            } else {
                                "cross-channel"
                            };
                        }
                    }
                }
            }
            "no-such-submission"
        };
        match kind {
            REL_ORD => {
                obs.count("oracle.C01.prefix");
                obs.count("oracle.C03.integrity");
                let c = &self.conns[i].st[d][ch];
                let k = c.next_ordered;
                if k < c.msgs.len() && c.msgs[k].bytes == *bytes {
                    let c = &mut self.conns[i].st[d][ch];
                    c.msgs[k].obtained += 1;
                    c.next_ordered += 1;
                    if c.msgs[k].nsl > 0 {
                        obs.count("probe.sliced_ordered_obtained");
                    }
                    return;
                }
                let disc = match c.by_content.get(bytes) {
                    Some(v) if v.iter().any(|&x| x < k) => "duplicate",
                    Some(_) => "gap-or-reorder",
                    None => {
                        let e = elsewhere(self);
                        obs.violate("C03", "obtained-foreign-or-corrupt-message", &format!("{}/{}", kn, e), format!("conn {} dir {} ch {} len {}", i, d, ch, bytes.len()));
                        if e != "no-such-submission" {
                            obs.violate("C11", "message-obtained-by-wrong-recipient", &format!("{}/{}", kn, e), format!("conn {} dir {} ch {} len {}", i, d, ch, bytes.len()));
                        }
                        e
                    }
                };
                obs.violate("C01", "not-a-prefix", disc, format!("conn {} dir {} ch {} position {} len {}", i, d, ch, k, bytes.len()));
                // resynchronise so one bug yields one report
                self.conns[i].tainted = true;
            }
            REL_UNORD => {
                obs.count("oracle.C02.at_most_once");
                obs.count("oracle.C03.integrity");
                let c = &mut self.conns[i].st[d][ch];
                match c.by_content.get(bytes) {
                    Some(v) => {
                        // identical contents are interchangeable: prefer a candidate whose packets have all arrived
                        let cand = v
                            .iter()
                            .find(|&&x| c.msgs[x].obtained == 0 && c.msgs[x].fully_handed())
                            .or_else(|| v.iter().find(|&&x| c.msgs[x].obtained == 0));
                        if let Some(&idx) = cand {
                            c.msgs[idx].obtained += 1;
                            if idx < 4096 && c.msgs[..idx].iter().any(|m| m.obtained == 0) {
                                obs.count("probe.unordered_obtained_ahead_of_older");
                            }
                        } else {
                            obs.violate("C02", "obtained-twice", "duplicate", format!("conn {} dir {} ch {} len {}", i, d, ch, bytes.len()));
                            self.conns[i].tainted = true;
                        }
                    }
                    None => {
                        let e = elsewhere(self);
                        obs.violate("C03", "obtained-foreign-or-corrupt-message", &format!("{}/{}", kn, e), format!("conn {} dir {} ch {} len {}", i, d, ch, bytes.len()));
                        if e != "no-such-submission" {
                            obs.violate("C11", "message-obtained-by-wrong-recipient", &format!("{}/{}", kn, e), format!("conn {} dir {} ch {} len {}", i, d, ch, bytes.len()));
                        }
                        obs.violate("C02", "obtained-not-submitted", e, format!("conn {} dir {} ch {} len {}", i, d, ch, bytes.len()));
                        self.conns[i].tainted = true;
                    }
                }
            }
            _ => {
                obs.count("oracle.C03.integrity");
                obs.count("oracle.C03.unreliable_multiplicity");
                let c = &mut self.conns[i].st[d][ch];
                if !c.by_content.contains_key(bytes) {
                    let e = elsewhere(self);
                    obs.violate("C03", "obtained-foreign-or-corrupt-message", &format!("{}/{}", kn, e), format!("conn {} dir {} ch {} len {}", i, d, ch, bytes.len()));
                    if e != "no-such-submission" {
                        obs.violate("C11", "message-obtained-by-wrong-recipient", &format!("{}/{}", kn, e), format!("conn {} dir {} ch {} len {}", i, d, ch, bytes.len()));
                    }
                    self.conns[i].tainted = true;
                    return;
                }
                for &ix in c.by_content.get(bytes).unwrap() {
                    if c.msgs[ix].obtained == 0 {
                        c.msgs[ix].obtained = 1;
                        break;
                    }
                }
                let n = c.obtained_by_content.entry(bytes.clone()).or_insert(0);
                *n += 1;
                let got = *n;
                let allowed_small = c.allow_small.get(bytes).copied().unwrap_or(0);
                let allowed_sliced: u32 = c
                    .sliced_tx
                    .values()
                    .filter(|t| t.content == *bytes)
                    .map(|t| t.deliveries.iter().copied().min().unwrap_or(0))
                    .sum();
                if got > allowed_small + allowed_sliced {
                    let disc = if bytes.len() > SLICE { "sliced" } else { "small" };
                    obs.violate(
                        "C03",
                        "unreliable-obtained-more-often-than-delivered",
                        disc,
                        format!("conn {} dir {} ch {} len {} obtained {} allowed {}", i, d, ch, bytes.len(), got, allowed_small + allowed_sliced),
                    );
                }
                if got > 1 {
                    obs.count("probe.unreliable_obtained_again_after_duplicate_delivery");
                }
            }
        }
    }

    /// After a complete drain of channel ch by the (alive) receiver of d: everything whose packets all arrived must be out.
    pub fn after_full_drain(&mut self, i: usize, d: usize, ch: usize, obs: &mut Obs) {
        if self.conns[i].tainted {
            return;
        }
        let c = &self.conns[i].st[d][ch];
        match c.cfg.kind {
            REL_UNORD => {
                obs.count("oracle.C02.no_wait");
                for (idx, m) in c.msgs.iter().enumerate() {
                    if m.fully_handed() && m.obtained == 0 {
                        obs.violate("C02", "complete-message-not-handed-over", if m.nsl > 0 { "sliced" } else { "small" }, format!("conn {} dir {} ch {} msg {}", i, d, ch, idx));
                        break;
                    }
                }
            }
            REL_ORD => {
                obs.count("oracle.C01.complete_prefix_available");
                let k = c.next_ordered;
                if k < c.msgs.len() && c.msgs[k].fully_handed() {
                    obs.violate("C01", "complete-next-message-not-handed-over", if c.msgs[k].nsl > 0 { "sliced" } else { "small" }, format!("conn {} dir {} ch {} msg {}", i, d, ch, k));
                }
            }
            _ => {}
        }
    }

    /// Send-side accounting and release oracles (C08, C09) for endpoint (i, side), evaluated after any op that touched it.
    pub fn check_send_side(&mut self, i: usize, side: usize, obs: &mut Obs) {
        if self.conns[i].tainted || !self.ep_exists(i, side) {
            return;
        }
        let d = if side == CL { 0 } else { 1 };
        let nch = self.conns[i].st[d].len();
        for ch in 0..nch {
            let (cid, kind, max) = {
                let c = &self.conns[i].st[d][ch];
                (c.cfg.id, c.cfg.kind, c.cfg.max_mem)
            };
            if kind == UNREL {
                continue;
            }
            let Some(ep) = self.ep_ref(i, side) else { return };
            let avail = ep.channel_available_memory(cid);
            let unacked = ep.verif_unacked(cid).unwrap_or_default();
            let unacked_ids: BTreeSet<u64> = unacked.iter().map(|(id, _)| *id).collect();
            obs.count("oracle.C08.release_only_after_delivery");
            obs.count("oracle.C09.send_accounting");
            let c = &self.conns[i].st[d][ch];
            let mut expect_used: usize = 0;
            for (idx, m) in c.msgs.iter().enumerate() {
                let id = c.base_id + idx as u64;
                let impl_holds = unacked_ids.contains(&id);
                if impl_holds {
                    expect_used += m.bytes.len();
                    if m.released {
                        obs.violate("C09", "acknowledged-message-not-released", kind_name(kind), format!("conn {} dir {} ch {} msg {}", i, d, ch, idx));
                    }
                } else if !m.fully_handed() {
                    obs.violate(
                        "C08",
                        "released-before-peer-has-it",
                        &format!("{}/{}", kind_name(kind), if m.nsl > 0 { "sliced" } else { "small" }),
                        format!("conn {} dir {} ch {} msg {} handed {:?}", i, d, ch, idx, m.handed),
                    );
                }
            }
            if avail > max || max - avail != expect_used {
                obs.violate(
                    "C09",
                    "send-accounting-mismatch",
                    kind_name(kind),
                    format!("conn {} dir {} ch {}: available {} max {} but unreleased bytes {}", i, d, ch, avail, max, expect_used),
                );
            }
        }
    }

    /// Receive-side accounting bounds (C06/C09) for endpoint (i, side).
    pub fn check_recv_side(&mut self, i: usize, side: usize, obs: &mut Obs) {
        let d = if side == CL { 1 } else { 0 };
        let Some(ep) = self.ep_ref(i, side) else { return };
        for c in &self.conns[i].st[d] {
            if let Some((used, max)) = ep.verif_receive_memory(c.cfg.id) {
                obs.count("oracle.C09.recv_bounds");
                obs.count("oracle.C06.recv_bounds");
                if used > max {
                    let p = if self.conns[i].tainted || self.conns[i].hostile { "C06" } else { "C09" };
                    obs.violate(p, "receive-accounting-above-max", kind_name(c.cfg.kind), format!("conn {} side {} ch {} used {} max {}", i, side, c.cfg.id, used, max));
                }
                // C09: what is accounted is explained by the ledger: every complete, not yet obtained message counts with its
                // length; a partially arrived sliced message counts with at most slices * 1200; nothing else counts
                if c.reliable() && !self.conns[i].tainted && !self.conns[i].hostile && ep.disconnect_reason().is_none() {
                    obs.count("oracle.C09.recv_accounting_explained");
                    let mut lo = 0usize;
                    let mut hi = 0usize;
                    for m in c.msgs.iter().filter(|m| m.obtained == 0) {
                        if m.fully_handed() {
                            lo += m.bytes.len();
                            hi += m.bytes.len();
                        } else if m.nsl > 0 && m.handed.iter().any(|h| *h > 0) {
                            hi += m.nsl * SLICE;
                        }
                    }
                    if used < lo || used > hi {
                        obs.violate(
                            "C09",
                            if used > hi { "receive-memory-accounts-more-than-is-buffered" } else { "receive-memory-accounts-less-than-is-buffered" },
                            kind_name(c.cfg.kind),
                            format!("conn {} side {} ch {}: accounted {} but the ledger explains between {} and {}", i, side, c.cfg.id, used, lo, hi),
                        );
                    }
                }
            }
        }
    }
}
