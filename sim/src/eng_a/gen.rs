//! Engine A: operation generator (profiles) and the PRNG-free heal phase with liveness / quiescence oracles.
use super::*;

const LEN_SMALL: &[u64] = &[0, 1, 2, 7, 8, 63, 64, 100, 300, 500, 1000];
const LEN_BOUNDARY: &[u64] = &[1190, 1195, 1198, 1199, 1200, 1201, 1202, 2399, 2400, 2401, 3599, 3600, 3601];
// (75 600 / 75 601 / 76 800 / 76 801 bytes: 63, 64, 64 and 65 slices — the slice count crosses a varint width)
const LEN_BIG: &[u64] = &[1300, 2000, 2500, 4000, 4800, 4801, 6000, 12_000, 24_001, 60_000, 75_600, 75_601, 76_800, 76_801];

impl WorldA {
    fn pick_len(&self, rng: &mut Rng, max_mem: usize) -> u64 {
        let mode = self.cfg.get("lenmode");
        let menu = match (mode, rng.below(10)) {
            (0, 0..=6) => LEN_SMALL,
            (0, 7..=8) => LEN_BOUNDARY,
            (1, 0..=5) => LEN_BOUNDARY,
            (1, 6..=7) => LEN_SMALL,
            (2, 0..=3) => LEN_BIG,
            (2, 4..=6) => LEN_BOUNDARY,
            (3, 0..=4) => LEN_SMALL,
            (3, 5..=7) => LEN_BIG,
            _ => LEN_SMALL,
        };
        let mut l = *rng.pick(menu);
        if rng.chance(1, 12) {
            l = rng.below(5000);
        }
        if l as usize > max_mem {
            l = (max_mem as u64).min(*rng.pick(LEN_SMALL));
        }
        l
    }

    fn pick_dt(&self, rng: &mut Rng, i: usize, d: usize) -> u64 {
        let resend = if self.conns[i].st[d].is_empty() { 100 } else { rng.pick(&self.conns[i].st[d]).cfg.resend_ms };
        let menu = [0u64, 1, 16, 16, 16, 33, 50, 100, 250, resend.saturating_sub(1), resend, resend + 1, 1000];
        let mut dt = *rng.pick(&menu);
        if rng.chance(1, 40) {
            dt = *rng.pick(&[2999u64, 3000, 3001, 5000, 10_000, 60_000]);
        }
        dt
    }

    fn pick_pool_index(&self, rng: &mut Rng, n: usize) -> u64 {
        if n == 0 {
            return 0;
        }
        match self.cfg.get("reorder") {
            0 => 0,
            1 => rng.below(n as u64),
            _ => {
                if rng.chance(1, 2) {
                    (n - 1) as u64
                } else {
                    rng.below(n as u64)
                }
            }
        }
    }

    pub fn gen(&mut self, rng: &mut Rng) -> Op {
        let ncl = self.conns.len() as u64;
        let up = self.cfg.get("uptime");
        if up > 0 && self.uptime_done <= ncl {
            // recorded like any other operation: one long update per endpoint before anything else happens
            let ep = self.uptime_done;
            self.uptime_done += 1;
            return Op::new(K_UPDATE, ep, up, 0, 0);
        }
        let i = rng.below(ncl) as usize;
        let d = rng.below(2) as usize;
        let loss = self.cfg.get("loss") as u32;
        let dup = self.cfg.get("dup");
        let recvbias = self.cfg.get("recvbias");
        let hostile_conn = self.conns[i].hostile;
        // weights: submit, recv, tick, update, flush, deliver, drop, dropall, deliverall, hold, broadcast, hostile, api, recvall
        let in_flight: usize = self.conns[i].pool[d].len();
        let mut w = [22u32, 10, 22, 1, 2, 40, 0, 0, 3, 1, 0, 0, 0, 2];
        w[6] = (40 * loss) / (100 - loss.min(95)).max(1);
        w[7] = if loss > 0 { 1 } else { 0 };
        if recvbias == 1 {
            w[1] = 2;
            w[13] = 0;
        }
        if recvbias == 2 {
            w[1] = 25;
            w[13] = 6;
        }
        if self.cfg.get("burst") == 1 {
            w[5] = 6;
            w[8] = 6;
            w[0] = 40;
        }
        if in_flight == 0 {
            w[5] = 2;
            w[6] = 0;
            w[8] = 1;
        }
        match self.fam {
            Fam::Multi => {
                w[10] = 12;
                w[12] = 2;
            }
            Fam::Api => {
                w[12] = 25;
                w[10] = 4;
            }
            Fam::Hostile => {}
            Fam::Budget => {
                w[0] = 30;
                w[2] = 30;
            }
            Fam::Lossy => {}
        }
        if hostile_conn {
            w[11] = 30;
        }
        if matches!(self.fam, Fam::Lossy | Fam::Budget) && self.cfg.get("overflow") == 0 && rng.chance(1, 180) {
            let n = self.nchan(i, d);
            if n > 0 {
                let tiny = if rng.chance(1, 4) { 427 } else { 0 };
                let ch = rng.below(n as u64);
                let c = &self.conns[i].st[d][ch as usize].cfg;
                if c.kind != UNREL && c.max_mem <= 5000 && rng.chance(1, 10) {
                    return Op::new(K_SUBMITBURST, i as u64, d as u64, ch, 854 + rng.below(61));
                }
                return Op::new(K_SUBMITBURST, i as u64, d as u64, ch, tiny + rng.below(61 * 7));
            }
        }
        if matches!(self.fam, Fam::Lossy | Fam::Budget) && self.cfg.get("overflow") == 0 && rng.chance(1, 1000) {
            let n = self.nchan(i, d);
            let roomy: Vec<usize> = (0..n).filter(|&k| self.conns[i].st[d][k].cfg.max_mem >= 800_000).collect();
            if !roomy.is_empty() {
                return Op::new(K_SUBMITHUGE, i as u64, d as u64, *rng.pick(&roomy) as u64, rng.below(460_000));
            }
        }
        if self.cfg.get("lateconn") == 1 && self.late_done & (1 << i) == 0 && rng.chance(1, 40) {
            self.late_done |= 1 << i;
            return Op::new(K_API, 6, i as u64, 0, 0);
        }
        if matches!(self.fam, Fam::Api) && self.cfg.get("evlazy") == 1 && rng.chance(1, 60) {
            return Op::new(K_CHURN, i as u64, rng.below(101), 0, 0);
        }
        let pick = rng.weighted(&w);
        match pick {
            0 => {
                let n = self.nchan(i, d);
                if n == 0 {
                    return Op::new(K_TICK, rng.below(ncl + 1), 16, 0, 0);
                }
                let ch = rng.below(n as u64) as usize;
                let len = self.pick_len(rng, self.conns[i].st[d][ch].cfg.max_mem);
                Op::new(K_SUBMIT, i as u64, d as u64, ch as u64, len)
            }
            1 => {
                let n = self.nchan(i, d).max(1);
                let all = rng.chance(1, 2);
                Op::new(K_RECV, i as u64, d as u64, if all { u64::MAX } else { rng.below(n as u64) }, if rng.chance(1, 4) { rng.range(1, 3) } else { 0 })
            }
            2 => {
                let ep = rng.below(ncl + 1);
                let ci = if ep == 0 { i } else { (ep - 1) as usize };
                let dd = if ep == 0 { 1 } else { 0 };
                Op::new(K_TICK, ep, self.pick_dt(rng, ci, dd), 0, 0)
            }
            3 => Op::new(K_UPDATE, rng.below(ncl + 1), self.pick_dt(rng, i, d), 0, 0),
            4 => Op::new(K_FLUSH, rng.below(ncl + 1), i as u64, 0, 0),
            5 => {
                let keep = if dup > 0 && rng.below(100) < dup { 1 } else { 0 };
                Op::new(K_DELIVER, i as u64, d as u64, self.pick_pool_index(rng, in_flight), keep)
            }
            6 => Op::new(K_DROP, i as u64, d as u64, self.pick_pool_index(rng, in_flight), 0),
            7 => Op::new(K_DROPALL, i as u64, d as u64, 0, 0),
            8 => {
                let order = if self.cfg.get("burst") == 1 { *rng.pick(&[2u64, 2, 3, 3, 4, 1, 0]) } else { *rng.pick(&[0u64, 0, 1, 2, 3]) };
                let keep = if dup > 0 && rng.below(100) < dup / 2 { 1 } else { 0 };
                Op::new(K_DELIVERALL, i as u64, d as u64, order, keep)
            }
            9 => Op::new(K_HOLD, i as u64, d as u64, if self.conns[i].hold[d] { 0 } else { rng.below(2) }, 0),
            10 => {
                let n = self.sch.len().max(1);
                let ch = rng.below(n as u64);
                let maxm = self.sch.get(ch as usize).map(|c| c.max_mem).unwrap_or(1000);
                let len = self.pick_len(rng, maxm);
                Op::new(K_BROADCAST, ch, len, if rng.chance(1, 2) { 0 } else { 1 + rng.below(ncl) }, 0)
            }
            11 => {
                let k = *rng.pick(&[K_MUTATE, K_MUTATE, K_FORGE, K_FORGE, K_FORGE, K_JUNK, K_FORGESLICE, K_FORGESLICE, K_FORGESLICE, K_FORGECLASH, K_FORGECLASH, K_FORGEFAT]);
                Op::new(k, i as u64, d as u64, rng.next() >> 16, rng.next() >> 16)
            }
            12 => Op::new(K_API, rng.below(12), rng.below(ncl), rng.below(4), 0),
            _ => Op::new(K_RECVALL, 0, 0, 0, 0),
        }
    }

    fn outstanding_reliable(&self, i: usize) -> (u64, bool) {
        let mut bytes = 0u64;
        let mut any = false;
        for d in 0..2 {
            for c in &self.conns[i].st[d] {
                if !c.reliable() {
                    continue;
                }
                for m in &c.msgs {
                    if m.obtained == 0 {
                        any = true;
                    }
                    if !m.released || m.obtained == 0 {
                        bytes += m.bytes.len() as u64 + 1;
                    }
                }
            }
        }
        (bytes, any)
    }

    fn all_reliable_obtained(&self, i: usize) -> bool {
        self.conns[i].st.iter().all(|dir| dir.iter().all(|c| !c.reliable() || c.msgs.iter().all(|m| m.obtained > 0)))
    }

    fn epilogue_round(&mut self, dt: u64, obs: &mut Obs) {
        let ncl = self.conns.len();
        // tick every endpoint, then deliver everything once FIFO, then drain
        self.apply_op(&Op::new(K_TICK, 0, dt, 0, 0), obs);
        for i in 0..ncl {
            self.apply_op(&Op::new(K_TICK, 1 + i as u64, dt, 0, 0), obs);
        }
        for i in 0..ncl {
            for d in 0..2 {
                self.conns[i].hold[d] = false;
                self.apply_op(&Op::new(K_DELIVERALL, i as u64, d as u64, 0, 0), obs);
            }
        }
        self.recv_all(obs);
    }

    pub fn run_epilogue(&mut self, obs: &mut Obs) {
        if self.cfg.get("no_epilogue") == 1 {
            return;
        }
        let ncl = self.conns.len();
        // drawn-once disposition of what is still in flight is part of the op list (DropAll / DeliverAll ops); here: heal.
        let dt = 100u64;
        let max_resend = self.sch.iter().chain(self.cch.iter()).map(|c| c.resend_ms).max().unwrap_or(0);
        let eligible: Vec<bool> = (0..ncl)
            .map(|i| self.both_alive(i) && !self.conns[i].tainted && !self.conns[i].hostile && !self.conns[i].local && self.avail >= 2400)
            .collect();
        let mut bound: Vec<u64> = vec![0; ncl];
        for i in 0..ncl {
            let (bytes, _) = self.outstanding_reliable(i);
            let per_tick = (self.avail.saturating_sub(1200)).max(1200);
            bound[i] = 10 + 4 * (max_resend.div_ceil(dt) + bytes.div_ceil(per_tick) + 1);
        }
        let max_bound = bound.iter().copied().max().unwrap_or(10);
        let mut done: Vec<Option<u64>> = vec![None; ncl];
        for t in 0..max_bound {
            self.epilogue_round(dt, obs);
            for i in 0..ncl {
                if done[i].is_none() && self.all_reliable_obtained(i) {
                    done[i] = Some(t + 1);
                }
            }
            if (0..ncl).all(|i| done[i].is_some() || !eligible[i]) {
                break;
            }
        }
        for i in 0..ncl {
            if !eligible[i] {
                obs.count("epilogue.liveness_skipped");
                continue;
            }
            if !self.both_alive(i) || self.conns[i].tainted {
                // disconnected during the heal phase: reported (or excused) where it happened
                obs.count("epilogue.liveness_lost_connection");
                continue;
            }
            obs.count("oracle.C01.liveness");
            obs.count("oracle.C02.liveness");
            obs.count("oracle.C11.liveness");
            if done[i].is_none() {
                // which channel kind is stuck?
                for d in 0..2 {
                    for (k, c) in self.conns[i].st[d].iter().enumerate() {
                        if c.reliable() && c.msgs.iter().any(|m| m.obtained == 0) {
                            let p = if c.cfg.kind == REL_ORD { "C01" } else { "C02" };
                            let missing = c.msgs.iter().filter(|m| m.obtained == 0).count();
                            obs.violate(
                                p,
                                "not-delivered-within-bound-after-heal",
                                super::model::kind_name(c.cfg.kind),
                                format!("conn {} dir {} ch {}: {} of {} messages missing after {} heal ticks", i, d, k, missing, c.msgs.len(), bound[i]),
                            );
                            if self.fam == Fam::Multi {
                                obs.violate("C11", "healthy-client-starved", super::model::kind_name(c.cfg.kind), format!("conn {} dir {} ch {}", i, d, k));
                            }
                            if self.fam == Fam::Hostile {
                                // C06: whatever hostile input did to other connections, this one (never fed hostile bytes,
                                // both ends alive) keeps working
                                obs.count("oracle.C06.others_keep_working");
                                obs.violate("C06", "healthy-connection-stalled-beside-hostile-one", super::model::kind_name(c.cfg.kind), format!("conn {} dir {} ch {}: {} messages missing after {} heal ticks", i, d, k, missing, bound[i]));
                            }
                            // C08: the heal phase hands over everything that is sent, so a packet the peer still has never been
                            // handed means the sender went silent on it before the peer had it
                            if c.msgs.iter().any(|m| m.obtained == 0 && !m.released && m.handed.iter().any(|h| *h == 0)) {
                                obs.violate(
                                    "C08",
                                    "stopped-retransmitting-before-peer-has-it",
                                    super::model::kind_name(c.cfg.kind),
                                    format!("conn {} dir {} ch {}: an unacknowledged item was not sent once in {} heal ticks", i, d, k, bound[i]),
                                );
                            }
                        }
                    }
                }
            } else {
                obs.count_by("epilogue.heal_ticks", done[i].unwrap());
            }
        }
        if std::env::var("VERIF_DEBUG").is_ok() {
            self.dump("after liveness phase");
        }
        // release phase: acknowledgements may have missed the 3 s sent-packet horizon, so items can need one more
        // retransmission round; wait (bounded) until the reference model has every reliable message acknowledged
        let all_released = |w: &WorldA, i: usize| w.conns[i].st.iter().all(|dir| dir.iter().all(|c| !c.reliable() || c.msgs.iter().all(|m| m.released)));
        let mut bound2 = 10u64;
        for i in 0..ncl {
            if eligible[i] && done[i].is_some() {
                let unreleased: u64 = self.conns[i].st.iter().flat_map(|d| d.iter()).filter(|c| c.reliable()).flat_map(|c| c.msgs.iter()).filter(|m| !m.released).map(|m| m.bytes.len() as u64 + 1200).sum();
                let per_tick = (self.avail.saturating_sub(1200)).max(1200);
                bound2 = bound2.max(10 + 4 * (max_resend.div_ceil(500) + unreleased.div_ceil(per_tick) + 1));
            }
        }
        let mut released_ok: Vec<bool> = vec![false; ncl];
        for _ in 0..bound2 {
            self.epilogue_round(500, obs);
            let mut all = true;
            for i in 0..ncl {
                released_ok[i] = all_released(self, i);
                if eligible[i] && done[i].is_some() && self.both_alive(i) && !self.conns[i].tainted && !released_ok[i] {
                    all = false;
                }
            }
            if all {
                break;
            }
        }
        // stale unreliable fragments expire after 3 s without progress
        for _ in 0..7 {
            self.epilogue_round(500, obs);
        }
        for i in 0..ncl {
            if !eligible[i] || !self.both_alive(i) || self.conns[i].tainted || done[i].is_none() {
                continue;
            }
            obs.count("oracle.C15.acknowledged_after_heal");
            if !all_released(self, i) {
                obs.violate("C15", "unacknowledged-after-heal", "release-phase", format!("conn {}: reliable messages still unacknowledged {} heal ticks after everything was obtained", i, bound2));
                continue;
            }
            for side in 0..2 {
                let d_send = if side == CL { 0 } else { 1 };
                let d_recv = 1 - d_send;
                let Some(ep) = self.ep_ref(i, side) else { continue };
                for c in &self.conns[i].st[d_send] {
                    obs.count("oracle.C09.quiescent_send_budget");
                    let a = ep.channel_available_memory(c.cfg.id);
                    if a != c.cfg.max_mem {
                        obs.violate(
                            "C09",
                            "send-budget-not-whole-at-quiescence",
                            super::model::kind_name(c.cfg.kind),
                            format!("conn {} side {} ch {} available {} max {}", i, side, c.cfg.id, a, c.cfg.max_mem),
                        );
                    }
                }
                for c in &self.conns[i].st[d_recv] {
                    if let Some((used, _)) = ep.verif_receive_memory(c.cfg.id) {
                        obs.count("oracle.C09.quiescent_recv_memory");
                        if used != 0 {
                            obs.violate(
                                "C09",
                                "receive-memory-not-zero-at-quiescence",
                                super::model::kind_name(c.cfg.kind),
                                format!("conn {} side {} ch {} still accounts {} bytes", i, side, c.cfg.id, used),
                            );
                        }
                    }
                }
                if !ep.verif_sent_packets().is_empty() && false {
                    obs.count("epilogue.sent_packets_left");
                }
            }
        }
    }

    pub fn dump(&self, what: &str) {
        eprintln!("--- dump: {} ---", what);
        for (i, c) in self.conns.iter().enumerate() {
            for side in 0..2 {
                let d = if side == CL { 0 } else { 1 };
                let Some(ep) = self.ep_ref(i, side) else { continue };
                eprintln!(
                    "conn {} side {} clock {} disc {:?} pending_acks {:?} sent_packets {:?} model_sent {:?}",
                    i,
                    side,
                    c.ep[side].clock_ms,
                    ep.disconnect_reason(),
                    ep.verif_pending_acks(),
                    ep.verif_sent_packets(),
                    c.ep[side].sent.keys().collect::<Vec<_>>()
                );
                for ch in &c.st[d] {
                    eprintln!(
                        "   send ch {} kind {} avail {} max {} unacked {:?}",
                        ch.cfg.id,
                        ch.cfg.kind,
                        ep.channel_available_memory(ch.cfg.id),
                        ch.cfg.max_mem,
                        ep.verif_unacked(ch.cfg.id)
                    );
                    for (ix, m) in ch.msgs.iter().enumerate() {
                        eprintln!("      msg {} len {} nsl {} acked {:?} handed {:?} last_tx {:?} obtained {}", ix, m.bytes.len(), m.nsl, m.acked, m.handed, m.last_tx, m.obtained);
                    }
                }
            }
        }
    }
}
