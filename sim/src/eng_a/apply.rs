//! Engine A: executing operations against the real RenetServer / RenetClient objects.
use super::model::{decode, reason_name};
use super::*;
use renet::verif::{Packet, Slice};
use renet::ServerEvent;

#[derive(Default)]
pub struct ApiState {
    /// per client id: first disconnect reason seen on the server-side connection object (None = healthy when last seen)
    pub sv_first_reason: HashMap<u64, Option<DisconnectReason>>,
    /// reference model of the server's event queue: one entry per actual insertion / removal, in order
    pub expected: std::collections::VecDeque<ExpEvent>,
}

#[derive(Clone, Debug)]
pub struct ExpEvent {
    pub connected: bool,
    pub id: u64,
    pub reason: Option<DisconnectReason>,
}

impl WorldA {
    fn flush(&mut self, i: usize, side: usize, obs: &mut Obs) {
        if !self.conns[i].present && !self.ep_exists(i, side) {
            return;
        }
        if self.cfg.get("prompt") == 1 {
            // strict prompt application: everything deliverable is drained before acknowledgements can leave
            let d_recv = if side == CL { 1 } else { 0 };
            for ch in 0..self.conns[i].st[d_recv].len() {
                self.recv_chan(i, d_recv, ch, 0, obs);
            }
        }
        let id = self.conns[i].id;
        let was_alive = self.ep_alive(i, side);
        let pend_before = self.ep_ref(i, side).map(|e| e.verif_pending_acks()).unwrap_or_default();
        let pkts: Vec<Vec<u8>> = if side == CL {
            match self.conns[i].client.as_mut() {
                Some(c) => c.get_packets_to_send(),
                None => return,
            }
        } else {
            match self.server.get_packets_to_send(id) {
                Ok(p) => p,
                Err(_) => return,
            }
        };
        obs.count("op.flush");
        if !was_alive {
            obs.count("oracle.C12.dead_emits_nothing");
            if !pkts.is_empty() {
                obs.violate("C12", "disconnected-connection-emits-packets", "flush", format!("conn {} side {} emitted {}", i, side, pkts.len()));
            }
            return;
        }
        let now_alive = self.ep_alive(i, side);
        if !now_alive {
            // the flush itself disconnected the endpoint: only serialisation failure can do that
            let r = self.ep_disc(i, side).unwrap();
            if let DisconnectReason::PacketSerialization(e) = r {
                obs.violate("C13", "packet-serialization-failed", &format!("{:?}", e), format!("conn {} side {} after flush", i, side));
            }
            self.note_disconnect(i, side, obs);
            return;
        }
        self.on_flush(i, side, &pkts, pend_before, obs);
        let d = if side == CL { 0 } else { 1 };
        for p in pkts {
            self.dgram_n += 1;
            let n = self.dgram_n;
            self.conns[i].pool[d].push(Dgram { bytes: p, deliveries: 0, n });
        }
        self.check_send_side(i, side, obs);
    }

    fn update(&mut self, ep: usize, dt: u64, obs: &mut Obs) {
        let dur = Duration::from_millis(dt);
        if dt < 100_000_000 {
            obs.sim_ms += dt;
        } else {
            // an uptime jump is not simulated time that anything happened in
            obs.count("fault.uptime_jump");
        }
        if ep == 0 {
            self.server.update(dur);
            for i in 0..self.conns.len() {
                if self.ep_exists(i, SV) {
                    self.on_update(i, SV, dt);
                }
            }
        } else {
            let i = (ep - 1) % self.conns.len();
            if let Some(c) = self.conns[i].client.as_mut() {
                c.update(dur);
                self.on_update(i, CL, dt);
            }
        }
    }

    /// Records a disconnect the first time it is seen and classifies unexpected ones in honest traffic.
    pub fn note_disconnect(&mut self, i: usize, side: usize, obs: &mut Obs) {
        let Some(r) = self.ep_disc(i, side) else { return };
        let first = self.conns[i].ep[side].first_reason;
        match first {
            None => {
                self.conns[i].ep[side].first_reason = Some(r);
                self.conns[i].ever_disconnected = true;
                obs.count(&format!("disconnect.{}", reason_name(&r)));
                obs.log.bytes(reason_name(&r).as_bytes());
                let honest = !self.conns[i].tainted && !self.conns[i].hostile;
                if honest && self.fam != Fam::Api {
                    self.classify_honest_disconnect(i, side, r, obs);
                }
            }
            Some(f) => {
                obs.count("oracle.C12.first_reason_kept");
                if f != r {
                    obs.violate("C12", "disconnect-reason-changed", &format!("{}->{}", reason_name(&f), reason_name(&r)), format!("conn {} side {}", i, side));
                }
            }
        }
    }

    fn classify_honest_disconnect(&mut self, i: usize, side: usize, r: DisconnectReason, obs: &mut Obs) {
        use DisconnectReason::*;
        match r {
            PacketSerialization(e) => obs.violate("C13", "packet-serialization-failed", &format!("{:?}", e), format!("conn {} side {}", i, side)),
            PacketDeserialization(e) => obs.violate("C16", "genuine-packet-rejected", &format!("{:?}", e), format!("conn {} side {}", i, side)),
            ReceivedInvalidChannelId(c) => obs.violate("C03", "genuine-packet-unknown-channel", "recv", format!("conn {} side {} channel {}", i, side, c)),
            ReceiveChannelError { channel_id, error } => match error {
                renet::ChannelError::InvalidSliceMessage => {
                    obs.violate("C03", "genuine-slice-rejected", "InvalidSliceMessage", format!("conn {} side {} channel {}", i, side, channel_id))
                }
                renet::ChannelError::ReliableChannelMaxMemoryReached => {
                    // C09: within-budget traffic, promptly drained => must not happen. Classify the cause from the ledger.
                    let d = if side == CL { 1 } else { 0 };
                    let Some(ch) = self.conns[i].st[d].iter().position(|c| c.cfg.id == channel_id) else { return };
                    let c = &self.conns[i].st[d][ch];
                    let prompt = self.cfg.get("prompt") == 1;
                    let k = c.next_ordered;
                    let buffered_behind_gap = c.cfg.kind == REL_ORD
                        && k < c.msgs.len()
                        && !c.msgs[k].fully_handed()
                        && c.msgs[k + 1..].iter().any(|m| m.handed.iter().any(|h| *h > 0));
                    let partial_sliced = c.msgs.iter().any(|m| m.nsl > 0 && m.obtained == 0 && !m.fully_handed() && m.handed.iter().any(|h| *h > 0));
                    let undrained = match c.cfg.kind {
                        REL_UNORD => c.msgs.iter().any(|m| m.obtained == 0 && m.fully_handed()),
                        _ => k < c.msgs.len() && c.msgs[k].fully_handed(),
                    };
                    // ordered head-of-line: the receiver still buffers messages the sender was already allowed to forget
                    let acked_but_undeliverable = c.cfg.kind == REL_ORD && c.msgs.iter().any(|m| m.obtained == 0 && m.released);
                    let cause = if acked_but_undeliverable {
                        "ordered-buffered-behind-gap"
                    } else if undrained {
                        "not-drained"
                    } else if buffered_behind_gap {
                        "ordered-buffered-behind-gap"
                    } else if partial_sliced {
                        "partially-reassembled-message"
                    } else {
                        "other"
                    };
                    obs.count(&format!("probe.recv_budget_disconnect.{}", cause));
                    if !prompt || self.cfg.get("overflow") == 1 {
                        // the clause is conditional on an application that drains promptly: only strict-prompt runs are judged
                        obs.count("probe.recv_budget_disconnect_excused_not_prompt");
                        return;
                    }
                    obs.violate(
                        "C09",
                        "spurious-receive-budget-disconnect",
                        &format!("{}/{}", super::model::kind_name(c.cfg.kind), cause),
                        format!("conn {} side {} channel {} max {}", i, side, channel_id, c.cfg.max_mem),
                    );
                    if c.cfg.kind == REL_UNORD {
                        // C02 has no "unless disconnected" clause: loss and duplication alone must not cost an unordered channel
                        // its messages, and a receiver that gives up within budget does exactly that
                        obs.violate(
                            "C02",
                            "messages-lost-to-spurious-disconnect",
                            cause,
                            format!("conn {} side {} channel {} max {}", i, side, channel_id, c.cfg.max_mem),
                        );
                    }
                }
            },
            SendChannelError { channel_id, .. } => {
                if self.cfg.get("overflow") == 0 {
                    obs.violate("C09", "spurious-send-budget-disconnect", "send", format!("conn {} side {} channel {}", i, side, channel_id));
                }
            }
            Transport | DisconnectedByClient | DisconnectedByServer => {}
        }
    }

    fn process(&mut self, i: usize, rside: usize, bytes: &[u8]) {
        let id = self.conns[i].id;
        if rside == CL {
            if let Some(c) = self.conns[i].client.as_mut() {
                c.process_packet(bytes);
            }
        } else {
            let _ = self.server.process_packet_from(bytes, id);
        }
    }

    /// Snapshot of everything observable about a (dead) endpoint, for the "accepts nothing" clause of C12.
    fn dead_snapshot(&self, i: usize, side: usize) -> Vec<u64> {
        let mut v = Vec::new();
        if let Some(ep) = self.ep_ref(i, side) {
            v.push(ep.verif_pending_acks().len() as u64);
            v.push(ep.verif_sent_packets().len() as u64);
            let d_recv = if side == CL { 1 } else { 0 };
            for c in &self.conns[i].st[d_recv] {
                if let Some((u, _)) = ep.verif_receive_memory(c.cfg.id) {
                    v.push(u as u64);
                }
            }
        }
        v
    }

    fn deliver_bytes(&mut self, i: usize, d: usize, bytes: &[u8], genuine: bool, obs: &mut Obs) {
        let rside = if d == 0 { SV } else { CL };
        if !self.ep_exists(i, rside) {
            obs.count("deliver.to_absent");
            return;
        }
        if rside == CL && self.cfg.get("steamlike") == 1 {
            if let Some(c) = self.conns[i].client.as_mut() {
                obs.count("op.status_reasserted_before_receive");
                c.set_connected();
            }
        }
        let was_alive = self.ep_alive(i, rside);
        if !was_alive {
            obs.count("oracle.C12.dead_accepts_nothing");
            let before = self.dead_snapshot(i, rside);
            self.process(i, rside, bytes);
            let after = self.dead_snapshot(i, rside);
            if before != after {
                obs.violate("C12", "disconnected-connection-processed-packet", "state-changed", format!("conn {} side {}", i, rside));
            }
            self.note_disconnect(i, rside, obs);
            return;
        }
        if !genuine {
            self.conns[i].tainted = true;
        }
        self.process(i, rside, bytes);
        obs.count("oracle.C06.returns");
        if genuine && !self.conns[i].tainted {
            self.on_deliver_genuine(i, d, bytes, obs);
        }
        if !self.ep_alive(i, rside) {
            self.note_disconnect(i, rside, obs);
        } else {
            self.check_send_side(i, rside, obs);
        }
        self.check_recv_side(i, rside, obs);
    }

    fn deliver_idx(&mut self, i: usize, d: usize, idx: usize, keep: bool, obs: &mut Obs) {
        let n = self.conns[i].pool[d].len();
        if n == 0 || self.conns[i].hold[d] {
            return;
        }
        let idx = idx % n;
        if idx > 0 {
            obs.count("fault.reorder");
        }
        let bytes = if keep {
            obs.count("fault.dup");
            self.conns[i].pool[d][idx].deliveries += 1;
            self.conns[i].pool[d][idx].bytes.clone()
        } else {
            let dg = self.conns[i].pool[d].remove(idx);
            if dg.deliveries > 0 {
                obs.count("fault.redelivery_of_kept_packet");
            }
            dg.bytes
        };
        obs.count("op.deliver");
        obs.abs.u64(0x100 + d as u64);
        self.deliver_bytes(i, d, &bytes, true, obs);
    }

    fn recv_chan(&mut self, i: usize, d: usize, ch: usize, max: u64, obs: &mut Obs) {
        let rside = if d == 0 { SV } else { CL };
        if !self.ep_exists(i, rside) {
            return;
        }
        let alive = self.ep_alive(i, rside);
        let cid = self.conns[i].st[d][ch].cfg.id;
        let id = self.conns[i].id;
        let mut n = 0u64;
        let mut drained = false;
        loop {
            if max > 0 && n >= max {
                break;
            }
            let m = if rside == CL { self.conns[i].client.as_mut().and_then(|c| c.receive_message(cid)) } else { self.server.receive_message(id, cid) };
            match m {
                None => {
                    drained = true;
                    break;
                }
                Some(b) => {
                    n += 1;
                    if !alive {
                        obs.violate("C12", "disconnected-connection-yields-message", "receive", format!("conn {} side {}", i, rside));
                        break;
                    }
                    self.on_obtain(i, d, ch, &b, obs);
                    if n > 100_000 {
                        obs.violate("C03", "receive-never-ends", "loop", format!("conn {} dir {} ch {}", i, d, ch));
                        break;
                    }
                }
            }
        }
        if !alive {
            obs.count("oracle.C12.dead_yields_nothing");
            return;
        }
        obs.count_by("op.obtained", n);
        if drained {
            self.after_full_drain(i, d, ch, obs);
        }
        self.check_recv_side(i, rside, obs);
    }

    pub fn recv_all(&mut self, obs: &mut Obs) {
        for i in 0..self.conns.len() {
            for d in 0..2 {
                for ch in 0..self.conns[i].st[d].len() {
                    self.recv_chan(i, d, ch, 0, obs);
                }
            }
        }
    }

    fn submit(&mut self, i: usize, d: usize, ch: usize, len: usize, bcast: Option<Bytes>, obs: &mut Obs) {
        let side = if d == 0 { CL } else { SV };
        if !self.ep_exists(i, side) {
            return;
        }
        let (cid, kind, max) = {
            let c = &self.conns[i].st[d][ch];
            (c.cfg.id, c.cfg.kind, c.cfg.max_mem)
        };
        let id = self.conns[i].id;
        let alive = self.ep_alive(i, side);
        let (can, avail_before) = {
            let ep = self.ep_ref(i, side).unwrap();
            (ep.can_send_message(cid, len), ep.channel_available_memory(cid))
        };
        if !can && kind != UNREL && self.cfg.get("overflow") == 0 && bcast.is_none() {
            obs.count("submit.skipped_over_budget");
            return;
        }
        let bytes = match &bcast {
            Some(b) => b.clone(),
            None => {
                self.submit_n += 1;
                payload(i as u64 + 1, d as u64, ch as u64, self.submit_n, len)
            }
        };
        if bcast.is_none() {
            if side == CL {
                self.conns[i].client.as_mut().unwrap().send_message(cid, bytes.clone());
            } else {
                self.server.send_message(id, cid, bytes.clone());
            }
        }
        obs.count("op.submit");
        let accepted = can && alive;
        if accepted {
            let at = obs.cur_op;
            let c = &mut self.conns[i].st[d][ch];
            let ix = c.msgs.len();
            c.msgs.push(Msg::new(bytes.clone(), at));
            c.by_content.entry(bytes.clone()).or_default().push(ix);
            if kind == UNREL {
                c.unrel_queue.push(ix);
            }
            if len > SLICE {
                obs.count("probe.sliced_message_submitted");
            }
            if (1199..=1201).contains(&len) {
                obs.count("probe.len_at_slice_boundary");
            }
            if len == 0 {
                obs.count("probe.len_zero");
            }
        } else {
            obs.count("submit.not_accepted");
        }
        if alive && !self.conns[i].tainted {
            obs.count("oracle.C09.submit_accounting");
            let ep = self.ep_ref(i, side).unwrap();
            let after = ep.channel_available_memory(cid);
            let expect = if accepted { avail_before - len } else { avail_before };
            let still_alive = ep.disconnect_reason().is_none();
            if still_alive && after != expect {
                obs.violate("C09", "submit-accounting-mismatch", super::model::kind_name(kind), format!("conn {} dir {} ch {} len {} before {} after {} max {}", i, d, ch, len, avail_before, after, max));
            }
        }
        if !self.ep_alive(i, side) {
            self.note_disconnect(i, side, obs);
        }
    }

    fn broadcast(&mut self, ch: usize, len: usize, except: u64, obs: &mut Obs) {
        if self.sch.is_empty() {
            return;
        }
        let ch = ch % self.sch.len();
        let cid = self.sch[ch].id;
        let kind = self.sch[ch].kind;
        let targets: Vec<usize> =
            (0..self.conns.len()).filter(|&i| self.ep_exists(i, SV) && !(except > 0 && (except - 1) as usize % self.conns.len() == i)).collect();
        // respect budgets unless overflow runs: a reliable broadcast that does not fit one client would disconnect it
        if kind != UNREL && self.cfg.get("overflow") == 0 {
            for &i in &targets {
                if self.ep_alive(i, SV) && !self.ep_ref(i, SV).unwrap().can_send_message(cid, len) {
                    obs.count("submit.skipped_over_budget");
                    return;
                }
            }
        }
        self.bcast_n += 1;
        let bytes = payload(0xFF, 1, ch as u64, self.bcast_n, len);
        // record per target first (needs pre-call budgets), then perform the single API call
        let pre: Vec<(usize, bool, bool)> = targets
            .iter()
            .map(|&i| (i, self.ep_alive(i, SV), self.ep_ref(i, SV).unwrap().can_send_message(cid, len)))
            .collect();
        if except > 0 {
            let ex = (except - 1) as usize % self.conns.len();
            let before = self.ep_ref(ex, SV).map(|e| e.channel_available_memory(cid));
            self.server.broadcast_message_except(self.conns[ex].id, cid, bytes.clone());
            obs.count("op.broadcast_except");
            // C11: the excluded client's channel must not have taken the message
            if let (Some(b), Some(e)) = (before, self.ep_ref(ex, SV)) {
                obs.count("oracle.C11.except_excluded");
                let after = e.channel_available_memory(cid);
                if after != b {
                    obs.violate("C11", "broadcast-except-reached-excluded-client", super::model::kind_name(kind), format!("conn {} channel {} available {} -> {}", ex, cid, b, after));
                }
            }
        } else {
            self.server.broadcast_message(cid, bytes.clone());
            obs.count("op.broadcast");
        }
        for (i, alive, can) in pre {
            if alive && can {
                let at = obs.cur_op;
                let c = &mut self.conns[i].st[1][ch];
                let ix = c.msgs.len();
                c.msgs.push(Msg::new(bytes.clone(), at));
                c.by_content.entry(bytes.clone()).or_default().push(ix);
                if kind == UNREL {
                    c.unrel_queue.push(ix);
                }
            }
            // C11: a reliable broadcast reaches every connected client; one whose channel cannot take it is disconnected for
            // it (as send_message would do), never left connected with a hole in its stream
            if alive && !can && kind != UNREL {
                obs.count("oracle.C11.broadcast_never_skips_silently");
                if self.ep_alive(i, SV) {
                    obs.violate("C11", "broadcast-skipped-connected-client", super::model::kind_name(kind), format!("conn {} channel {} len {}: still connected, message not queued", i, cid, bytes.len()));
                }
            }
            if !self.ep_alive(i, SV) {
                self.note_disconnect(i, SV, obs);
            }
            self.check_send_side(i, SV, obs);
        }
    }

    pub fn pump_events(&mut self, obs: &mut Obs) {
        let lazy = self.cfg.get("evlazy") == 1;
        while let Some(ev) = self.server.get_event() {
            // the event stream is exactly the sequence of insertions and removals that happened, whenever it is polled
            obs.count("oracle.C12.event_queue_model");
            let (got_conn, got_id, got_reason) = match &ev {
                ServerEvent::ClientConnected { client_id } => (true, *client_id, None),
                ServerEvent::ClientDisconnected { client_id, reason } => (false, *client_id, Some(*reason)),
            };
            match self.api.expected.pop_front() {
                None => obs.violate("C12", "event-without-transition", if got_conn { "connect" } else { "disconnect" }, format!("client {}", got_id)),
                Some(exp) => {
                    if exp.connected != got_conn || exp.id != got_id {
                        obs.violate(
                            "C12",
                            "event-stream-differs-from-transitions",
                            if got_conn { "connect" } else { "disconnect" },
                            format!("got {} of client {}, owed {} of client {}", if got_conn { "connect" } else { "disconnect" }, got_id, if exp.connected { "connect" } else { "disconnect" }, exp.id),
                        );
                    } else if !got_conn && lazy && got_reason != exp.reason {
                        obs.violate(
                            "C12",
                            "event-reason-is-not-first-reason",
                            &format!("{}-instead-of-{}", reason_name(&got_reason.unwrap()), reason_name(&exp.reason.unwrap_or(DisconnectReason::Transport))),
                            format!("client {}", got_id),
                        );
                    }
                }
            }
            match &ev {
                ServerEvent::ClientConnected { client_id } => {
                    obs.count("oracle.C12.event_alternation");
                    let st = self.ev_state.entry(*client_id).or_insert(false);
                    if *st {
                        obs.violate("C12", "two-connects-without-disconnect", "events", format!("client {}", client_id));
                    }
                    *st = true;
                }
                ServerEvent::ClientDisconnected { client_id, reason } => {
                    obs.count("oracle.C12.event_alternation");
                    let st = self.ev_state.entry(*client_id).or_insert(false);
                    if !*st {
                        obs.violate("C12", "disconnect-without-connect", "events", format!("client {}", client_id));
                    }
                    *st = false;
                    if lazy {
                        // judged against the reason captured at removal time (above): the map below describes the current incarnation
                        self.events.push(ev);
                        continue;
                    }
                    obs.count("oracle.C12.event_reason");
                    let first = self.api.sv_first_reason.get(client_id).cloned().flatten();
                    let expect = first.unwrap_or(DisconnectReason::Transport);
                    // disconnect_local_client on a healthy connection reports DisconnectedByClient by design
                    let local_ok = first.is_none() && *reason == DisconnectReason::DisconnectedByClient && self.api_last_was_local_disconnect(*client_id);
                    if *reason != expect && !local_ok {
                        obs.violate(
                            "C12",
                            "event-reason-is-not-first-reason",
                            &format!("{}-instead-of-{}", reason_name(reason), reason_name(&expect)),
                            format!("client {}", client_id),
                        );
                    }
                }
            }
            self.events.push(ev);
        }
        if let Some(exp) = self.api.expected.front() {
            obs.violate("C12", "transition-without-event", if exp.connected { "connect" } else { "disconnect" }, format!("client {}", exp.id));
            self.api.expected.clear();
        }
    }

    /// Reference event queue: a removal that is about to happen on a present connection is owed one disconnect event
    /// carrying the first reason that connection showed (Transport / `default` when it was healthy).
    fn expect_removal(&mut self, id: u64, default: DisconnectReason) {
        if let Some(sc) = self.server.verif_connection(id) {
            let first = self.api.sv_first_reason.get(&id).cloned().flatten().or(sc.disconnect_reason());
            self.api.expected.push_back(ExpEvent { connected: false, id, reason: Some(first.unwrap_or(default)) });
        }
    }

    fn api_last_was_local_disconnect(&self, id: u64) -> bool {
        self.conns.iter().any(|c| c.id == id && c.local)
    }

    /// Tracks the first reason shown by every server-side connection object (for the event-reason clause).
    fn track_sv_reasons(&mut self) {
        for c in &self.conns {
            if let Some(sc) = self.server.verif_connection(c.id) {
                let e = self.api.sv_first_reason.entry(c.id).or_insert(None);
                if e.is_none() {
                    *e = sc.disconnect_reason();
                }
            }
        }
    }

    fn api_op(&mut self, which: u64, i: usize, arg: u64, obs: &mut Obs) {
        let id = self.conns[i].id;
        obs.count(&format!("api.{}", which % 12));
        match which % 12 {
            0 => {
                // add_connection (fresh incarnation if absent on the server)
                if !self.ep_exists(i, SV) {
                    self.connect(i, false);
                } else {
                    self.server.add_connection(id); // documented no-op
                }
            }
            1 => {
                self.expect_removal(id, DisconnectReason::Transport);
                self.server.remove_connection(id);
                self.conns[i].present = false;
            }
            2 => {
                let was = self.server.verif_connection(id).map(|sc| if sc.is_connecting() { "connecting" } else { "connected" });
                self.server.disconnect(id);
                if let (Some(was), Some(sc)) = (was, self.server.verif_connection(id)) {
                    obs.count("oracle.C12.cause_takes_effect");
                    if !sc.is_disconnected() {
                        obs.violate("C12", "disconnect-call-had-no-effect", &format!("server/disconnect/{}", was), format!("client {}", id));
                    }
                }
            }
            3 => {
                self.server.disconnect_all();
                for c in &self.conns {
                    if let Some(sc) = self.server.verif_connection(c.id) {
                        obs.count("oracle.C12.cause_takes_effect");
                        if !sc.is_disconnected() {
                            obs.violate("C12", "disconnect-call-had-no-effect", "server/disconnect_all", format!("client {}", c.id));
                        }
                    }
                }
            }
            4 => {
                if let Some(c) = self.conns[i].client.as_mut() {
                    let was = if c.is_connecting() { "connecting" } else { "connected" };
                    c.disconnect();
                    // every cause of disconnection takes effect in every live state
                    obs.count("oracle.C12.cause_takes_effect");
                    if !c.is_disconnected() {
                        obs.violate("C12", "disconnect-call-had-no-effect", &format!("client/disconnect/{}", was), format!("conn {}", i));
                    }
                }
            }
            5 => {
                if let Some(c) = self.conns[i].client.as_mut() {
                    let was = if c.is_connecting() { "connecting" } else { "connected" };
                    c.disconnect_due_to_transport();
                    obs.count("oracle.C12.cause_takes_effect");
                    if !c.is_disconnected() {
                        obs.violate("C12", "disconnect-call-had-no-effect", &format!("client/transport/{}", was), format!("conn {}", i));
                    }
                }
            }
            6 => {
                if let Some(c) = self.conns[i].client.as_mut() {
                    if arg % 2 == 0 {
                        c.set_connected();
                    } else {
                        c.set_connecting();
                    }
                }
            }
            7 => {
                if let Some(sc) = self.server.verif_connection_mut(id) {
                    if arg % 2 == 0 {
                        sc.set_connected();
                    } else {
                        sc.set_connecting();
                    }
                }
            }
            8 => {
                // new_local_client builds the client from the server's point of view (send = server channels), so it is
                // only usable when both channel lists are identical; otherwise fall back to a plain connection
                let same = self.sch.len() == self.cch.len()
                    && self.sch.iter().zip(self.cch.iter()).all(|(a, b)| a.id == b.id && a.kind == b.kind && a.max_mem == b.max_mem && a.resend_ms == b.resend_ms);
                if !self.ep_exists(i, SV) {
                    self.connect(i, same);
                } else {
                    // an application asking for a local client under an id the server already holds (live, or disconnected
                    // and not removed yet): add_connection "does nothing if a connection already exists", so the server's
                    // connection stays what it was and nothing is reported; the surplus handle is dropped
                    let before = self.server.verif_connection(id).map(|sc| (sc.is_disconnected(), sc.disconnect_reason()));
                    let _surplus = self.server.new_local_client(id);
                    let after = self.server.verif_connection(id).map(|sc| (sc.is_disconnected(), sc.disconnect_reason()));
                    obs.count("oracle.C12.taken_id_left_alone");
                    if before != after {
                        obs.violate("C12", "connection-replaced-without-report", "new_local_client", format!("client {}: {:?} -> {:?}", id, before, after));
                    }
                }
            }
            9 => {
                if self.conns[i].local {
                    if let Some(mut c) = self.conns[i].client.take() {
                        self.track_sv_reasons();
                        if !c.is_disconnected() {
                            self.expect_removal(id, DisconnectReason::DisconnectedByClient);
                        }
                        self.server.disconnect_local_client(id, &mut c);
                        self.conns[i].client = Some(c);
                        if !self.ep_exists(i, SV) {
                            self.conns[i].present = false;
                        }
                    }
                }
            }
            10 => {
                if self.conns[i].local {
                    if let Some(mut c) = self.conns[i].client.take() {
                        let _ = self.server.process_local_client(id, &mut c);
                        self.conns[i].client = Some(c);
                        self.conns[i].tainted = true; // traffic bypassed the ledgers
                    }
                }
            }
            _ => {
                if let Some(sc) = self.server.verif_connection_mut(id) {
                    let was = if sc.is_connecting() { "connecting" } else { "connected" };
                    sc.disconnect_due_to_transport();
                    obs.count("oracle.C12.cause_takes_effect");
                    if !sc.is_disconnected() {
                        obs.violate("C12", "disconnect-call-had-no-effect", &format!("server/transport/{}", was), format!("client {}", id));
                    }
                }
            }
        }
        for j in 0..self.conns.len() {
            for side in 0..2 {
                if self.ep_exists(j, side) && !self.ep_alive(j, side) {
                    self.note_disconnect(j, side, obs);
                }
            }
        }
    }

    fn hostile_bytes(&mut self, op: &Op, i: usize, d: usize) -> Option<Vec<u8>> {
        let mut rng = Rng::new(crate::prng::mix(&[op.c, op.d, op.k as u64]));
        match op.k {
            K_MUTATE => {
                let n = self.conns[i].pool[d].len();
                if n == 0 {
                    return None;
                }
                let mut b = self.conns[i].pool[d][(op.c as usize) % n].bytes.clone();
                let kind = op.d % 5;
                let p = (op.d / 5) as usize;
                match kind {
                    0 => {
                        if !b.is_empty() {
                            let bit = p % (b.len() * 8);
                            b[bit / 8] ^= 1 << (bit % 8);
                        }
                    }
                    1 => {
                        let keep = p % (b.len() + 1);
                        b.truncate(keep);
                    }
                    2 => {
                        let extra = 1 + p % 64;
                        for _ in 0..extra {
                            b.push(rng.next() as u8);
                        }
                    }
                    3 => {
                        if !b.is_empty() {
                            b[0] = (p % 256) as u8;
                        }
                    }
                    _ => {
                        if !b.is_empty() {
                            let pos = p % b.len();
                            b[pos] = rng.next() as u8;
                        }
                    }
                }
                Some(b)
            }
            K_JUNK => {
                let len = (op.c % 1401) as usize;
                let mut b = vec![0u8; len];
                rng.fill(&mut b);
                if !b.is_empty() && op.d % 2 == 0 {
                    b[0] = (op.d / 2 % 6) as u8;
                }
                Some(b)
            }
            K_FORGE => {
                // field-boundary values through the crate's own encoder
                let chans: Vec<u8> = self.conns[i].st[d].iter().map(|c| c.cfg.id).collect();
                let pick_ch = |r: &mut Rng| -> u8 {
                    if r.chance(1, 5) || chans.is_empty() {
                        r.next() as u8
                    } else {
                        *r.pick(&chans)
                    }
                };
                let big = [0u64, 1, 2, 63, 64, 255, 16383, 16384, (1 << 30) - 1, 1 << 30, (1u64 << 62) - 1];
                let seq = *rng.pick(&big);
                let mid = if rng.chance(1, 2) { rng.below(6) } else { *rng.pick(&big) };
                let nsl_menu = [1usize, 2, 3, 4, 5, 1000, 999_999, 1_000_000];
                let t = op.c % 5;
                let pkt = match t {
                    0 | 1 => {
                        let num_slices = *rng.pick(&nsl_menu);
                        let slice_index = match rng.below(5) {
                            0 => num_slices,
                            1 => num_slices + 1,
                            2 => num_slices.saturating_sub(1),
                            3 => usize::MAX >> 3,
                            _ => rng.below(num_slices as u64 + 2) as usize,
                        };
                        let plen = *rng.pick(&[1usize, 2, 100, 1199, 1200]);
                        let mut pl = vec![0u8; plen];
                        rng.fill(&mut pl);
                        let slice = Slice { message_id: mid, slice_index, num_slices, payload: pl.into() };
                        if t == 0 {
                            Packet::ReliableSlice { sequence: seq, channel_id: pick_ch(&mut rng), slice }
                        } else {
                            Packet::UnreliableSlice { sequence: seq, channel_id: pick_ch(&mut rng), slice }
                        }
                    }
                    2 => {
                        let n = rng.below(4) as usize;
                        let mut messages = Vec::new();
                        for _ in 0..n {
                            let l = *rng.pick(&[0usize, 1, 5, 300]);
                            let mut pl = vec![0u8; l];
                            rng.fill(&mut pl);
                            let m = if rng.chance(1, 2) { rng.below(8) } else { *rng.pick(&big) };
                            messages.push((m, Bytes::from(pl)));
                        }
                        Packet::SmallReliable { sequence: seq, channel_id: pick_ch(&mut rng), messages }
                    }
                    3 => {
                        let n = rng.below(4) as usize;
                        let mut messages = Vec::new();
                        for _ in 0..n {
                            let l = *rng.pick(&[0usize, 1, 5, 300]);
                            let mut pl = vec![0u8; l];
                            rng.fill(&mut pl);
                            messages.push(Bytes::from(pl));
                        }
                        Packet::SmallUnreliable { sequence: seq, channel_id: pick_ch(&mut rng), messages }
                    }
                    _ => {
                        // ascending, well-formed but extreme ack ranges
                        let n = 1 + rng.below(6);
                        let mut start = rng.below(4);
                        let mut ranges = Vec::new();
                        for _ in 0..n {
                            let len = *rng.pick(&[1u64, 1, 2, 1000, 1 << 20, 1 << 40]);
                            ranges.push(start..start.saturating_add(len));
                            start = start.saturating_add(len).saturating_add(1 + *rng.pick(&[0u64, 1, 5, 1 << 33]));
                            if start > (1 << 61) {
                                break;
                            }
                        }
                        Packet::Ack { sequence: seq, ack_ranges: ranges }
                    }
                };
                let mut buf = [0u8; 1500];
                let mut o = super::model::octets_shim::OctetsMut::with_slice(&mut buf);
                match pkt.to_bytes(&mut o) {
                    Ok(n) => {
                        let mut b = buf[..n].to_vec();
                        if op.d % 7 == 0 && !b.is_empty() {
                            let keep = (op.d / 7) as usize % b.len();
                            b.truncate(keep);
                        }
                        Some(b)
                    }
                    Err(_) => None,
                }
            }
            _ => None,
        }
    }

    pub fn apply_op(&mut self, op: &Op, obs: &mut Obs) {
        obs.log.u64(op.k as u64);
        obs.log.u64(op.a);
        obs.log.u64(op.b);
        obs.log.u64(op.c);
        obs.log.u64(op.d);
        obs.abs.u64(op.k as u64);
        let ncl = self.conns.len();
        match op.k {
            K_SUBMIT => {
                let i = op.a as usize % ncl;
                let d = (op.b % 2) as usize;
                let n = self.nchan(i, d);
                if n > 0 {
                    let ch = op.c as usize % n;
                    obs.abs.u64(self.conns[i].st[d][ch].cfg.kind as u64 * 4 + (op.d > 1200) as u64);
                    self.submit(i, d, ch, op.d as usize, None, obs);
                    self.check_send_side(i, if d == 0 { CL } else { SV }, obs);
                }
            }
            K_CHURN => {
                // a reconnect storm between two polls of the event queue: one client is removed and added again 100-200 times
                let i = op.a as usize % ncl;
                let id = self.conns[i].id;
                let n = 100 + (op.b % 101) as usize;
                obs.count("op.churn");
                for _ in 0..n {
                    self.track_sv_reasons();
                    if self.ep_exists(i, SV) {
                        self.expect_removal(id, DisconnectReason::Transport);
                        self.server.remove_connection(id);
                        self.conns[i].present = false;
                    }
                    self.connect(i, false);
                }
            }
            K_SUBMITBURST => {
                // an application that submits a volley of messages of one size at once (a level download, a replay of buffered
                // state): 40..100 messages, so that per-channel counters move far within one run
                let i = op.a as usize % ncl;
                let d = (op.b % 2) as usize;
                let n = self.nchan(i, d);
                if n > 0 {
                    let ch = op.c as usize % n;
                    // (from 427 on: several hundred empty or one-byte messages, more than one packet's count field may hold)
                    // (from 854 on: thousands of empty messages — more messages in flight than a small channel has bytes)
                    let (count, len) = if op.d >= 854 {
                        (3001 + ((op.d % 61) * 20) as usize, 0usize)
                    } else if op.d >= 427 {
                        (260 + ((op.d % 61) * 5) as usize, ((op.d / 61) % 2) as usize)
                    } else {
                        (40 + (op.d % 61) as usize, [1usize, 300, 1200, 1201, 1500, 2400, 2401][((op.d / 61) % 7) as usize])
                    };
                    obs.count("op.submit_burst");
                    for _ in 0..count {
                        self.submit(i, d, ch, len, None, obs);
                    }
                    self.check_send_side(i, if d == 0 { CL } else { SV }, obs);
                }
            }
            K_SUBMITHUGE => {
                // one message of more than 256 slices (308 kB .. 768 kB; legal under the default 5 MiB channel budget): slice
                // indexes and counts that no longer fit a byte
                let i = op.a as usize % ncl;
                let d = (op.b % 2) as usize;
                let n = self.nchan(i, d);
                if n > 0 {
                    let ch = op.c as usize % n;
                    let len = 256 * 1200 + 1 + (op.d % 460_000) as usize;
                    obs.count("op.submit_huge");
                    self.submit(i, d, ch, len, None, obs);
                    self.check_send_side(i, if d == 0 { CL } else { SV }, obs);
                }
            }
            K_SUBMITSWARM => {
                // more than 65 536 tiny messages on one channel at once (65 600 .. 70 599 messages of 0 .. 4 bytes: a counter of
                // buffered messages that no longer fits sixteen bits); only directed corpus traces use it
                let i = op.a as usize % ncl;
                let d = (op.b % 2) as usize;
                let n = self.nchan(i, d);
                if n > 0 {
                    let ch = op.c as usize % n;
                    let count = 65_600 + (op.d % 5000) as usize;
                    let len = ((op.d / 5000) % 5) as usize;
                    obs.count("op.submit_swarm");
                    for _ in 0..count {
                        self.submit(i, d, ch, len, None, obs);
                    }
                    self.check_send_side(i, if d == 0 { CL } else { SV }, obs);
                }
            }
            K_SUBMITGIANT => {
                // one message of more than 65 536 slices (78.6 MB and up; legal only under channel budgets configured far above the
                // default, so only directed corpus traces use it): slice indexes that no longer fit sixteen bits
                let i = op.a as usize % ncl;
                let d = (op.b % 2) as usize;
                let n = self.nchan(i, d);
                if n > 0 {
                    let ch = op.c as usize % n;
                    let len = 65_536 * 1200 + 1 + (op.d % 2_000_000) as usize;
                    obs.count("op.submit_giant");
                    self.submit(i, d, ch, len, None, obs);
                    self.check_send_side(i, if d == 0 { CL } else { SV }, obs);
                }
            }
            K_RECV => {
                let i = op.a as usize % ncl;
                let d = (op.b % 2) as usize;
                let n = self.nchan(i, d);
                if n > 0 {
                    if op.c == u64::MAX {
                        for ch in 0..n {
                            self.recv_chan(i, d, ch, op.d, obs);
                        }
                    } else {
                        self.recv_chan(i, d, op.c as usize % n, op.d, obs);
                    }
                }
            }
            K_TICK => {
                let ep = op.a as usize % (ncl + 1);
                if op.b >= 3000 {
                    obs.count("fault.clock_jump");
                }
                self.update(ep, op.b, obs);
                if ep == 0 {
                    for i in 0..ncl {
                        self.flush(i, SV, obs);
                    }
                } else {
                    self.flush(ep - 1, CL, obs);
                }
            }
            K_UPDATE => {
                let ep = op.a as usize % (ncl + 1);
                self.update(ep, op.b, obs);
            }
            K_FLUSH => {
                let ep = op.a as usize % (ncl + 1);
                if ep == 0 {
                    let i = op.b as usize % ncl;
                    self.flush(i, SV, obs);
                } else {
                    self.flush(ep - 1, CL, obs);
                }
            }
            K_DELIVER => {
                let i = op.a as usize % ncl;
                let d = (op.b % 2) as usize;
                self.deliver_idx(i, d, op.c as usize, op.d % 2 == 1, obs);
            }
            K_DROP => {
                let i = op.a as usize % ncl;
                let d = (op.b % 2) as usize;
                let n = self.conns[i].pool[d].len();
                if n > 0 {
                    self.conns[i].pool[d].remove(op.c as usize % n);
                    obs.count("fault.drop");
                }
            }
            K_DROPALL => {
                let i = op.a as usize % ncl;
                let d = (op.b % 2) as usize;
                let n = self.conns[i].pool[d].len();
                if n > 0 {
                    self.conns[i].pool[d].clear();
                    obs.count_by("fault.drop", n as u64);
                    obs.count("fault.drop_all");
                }
            }
            K_DELIVERALL => {
                let i = op.a as usize % ncl;
                let d = (op.b % 2) as usize;
                if self.conns[i].hold[d] {
                    return;
                }
                let keep = op.d % 2 == 1;
                if op.c % 5 >= 3 {
                    // sparse pass that leaves the rest in flight: newest first, every 4th (order 3) or every 3rd (order 4) packet;
                    // a later pass delivers packets that fall between ranges the receiver already recorded
                    let stride = if op.c % 5 == 3 { 4 } else { 3 };
                    let pool = std::mem::take(&mut self.conns[i].pool[d]);
                    let n = pool.len();
                    let mut now: Vec<Dgram> = Vec::new();
                    let mut later: Vec<Dgram> = Vec::new();
                    for (k, g) in pool.into_iter().enumerate() {
                        if (n - 1 - k) % stride == 0 {
                            now.push(g);
                        } else {
                            later.push(g);
                        }
                    }
                    now.reverse();
                    self.conns[i].pool[d] = later;
                    if now.len() > 1 {
                        obs.count("fault.reverse_strided_burst");
                    }
                    for g in now {
                        obs.count("op.deliver");
                        self.deliver_bytes(i, d, &g.bytes, true, obs);
                    }
                    return;
                }
                let mut batch: Vec<Dgram> = if keep {
                    self.conns[i].pool[d].iter().map(|g| Dgram { bytes: g.bytes.clone(), deliveries: 0, n: g.n }).collect()
                } else {
                    std::mem::take(&mut self.conns[i].pool[d])
                };
                if keep && !batch.is_empty() {
                    obs.count_by("fault.dup", batch.len() as u64);
                }
                match op.c % 5 {
                    0 => {}
                    1 => {
                        batch.reverse();
                        if batch.len() > 1 {
                            obs.count("fault.reverse_burst");
                        }
                    }
                    _ => {
                        // newest first, every other packet, the rest lost: the arrival order that inserts ack ranges in the middle
                        batch.reverse();
                        let before = batch.len();
                        let mut k = 0;
                        batch.retain(|_| {
                            k += 1;
                            k % 2 == 1
                        });
                        if before > 1 {
                            obs.count("fault.reverse_sparse_burst");
                            obs.count_by("fault.drop", (before - batch.len()) as u64);
                        }
                    }
                }
                for g in batch {
                    obs.count("op.deliver");
                    self.deliver_bytes(i, d, &g.bytes, true, obs);
                }
            }
            K_HOLD => {
                let i = op.a as usize % ncl;
                let d = (op.b % 2) as usize;
                let on = op.c % 2 == 1;
                if on && !self.conns[i].hold[d] {
                    obs.count("fault.partition");
                } else if !on && self.conns[i].hold[d] {
                    obs.count("fault.heal");
                }
                self.conns[i].hold[d] = on;
            }
            K_BROADCAST => {
                self.broadcast(op.a as usize, op.b as usize, op.c, obs);
            }
            K_MUTATE | K_FORGE | K_JUNK => {
                let i = op.a as usize % ncl;
                let d = (op.b % 2) as usize;
                if let Some(b) = self.hostile_bytes(op, i, d) {
                    obs.count(match op.k {
                        K_MUTATE => "fault.mutate",
                        K_FORGE => "fault.forge",
                        _ => "fault.junk",
                    });
                    if let Ok(p) = decode(&b) {
                        obs.count("probe.hostile_packet_decodes");
                        // C16 second clause on hostile strings: decodable => re-encode => decode gives the same value
                        obs.count("oracle.C16.hostile_roundtrip");
                        let mut buf = [0u8; 3000];
                        let mut o = super::model::octets_shim::OctetsMut::with_slice(&mut buf);
                        if let Ok(n) = p.to_bytes(&mut o) {
                            match decode(&buf[..n]) {
                                Ok(p2) if p2 == p => {}
                                _ => obs.violate("C16", "decode-encode-decode-unstable", "renet-packet", format!("{:02x?}", &b[..b.len().min(32)])),
                            }
                        }
                    }
                    self.deliver_bytes(i, d, &b, false, obs);
                }
            }
            K_FORGESLICE => {
                // a hostile peer that plays by the slicing rules: well-formed slices of consistent sliced messages (ids just above
                // the delivery cursor), many open at once, completed in any order with last slices of any legal length
                let i = op.a as usize % ncl;
                let d = (op.b % 2) as usize;
                let n = self.nchan(i, d);
                if n == 0 {
                    return;
                }
                let ch = (op.c % 7) as usize % n;
                let c = &self.conns[i].st[d][ch];
                let cid = c.cfg.id;
                let reliable = c.reliable();
                let base = c.base_id + c.msgs.len() as u64; // above everything the honest side of this link ever used
                let mid = base + (op.c / 7) % 24;
                let nsl = 2 + ((op.c / 168) % 3) as usize;
                let idx = ((op.c / 504) % nsl as u64) as usize;
                let last_len = match op.d % 5 {
                    0 => 1,
                    1 => 600,
                    2 => 1199,
                    _ => 1200,
                };
                let plen = if idx == nsl - 1 { last_len } else { SLICE };
                let payload = vec![0xEEu8; plen];
                let slice = Slice { message_id: mid, slice_index: idx, num_slices: nsl, payload: payload.into() };
                let pkt = if reliable {
                    Packet::ReliableSlice { sequence: 1_000_000 + op.d % 100_000, channel_id: cid, slice }
                } else {
                    Packet::UnreliableSlice { sequence: 1_000_000 + op.d % 100_000, channel_id: cid, slice }
                };
                let mut buf = [0u8; 1500];
                let mut o = super::model::octets_shim::OctetsMut::with_slice(&mut buf);
                if let Ok(len) = pkt.to_bytes(&mut o) {
                    obs.count("fault.forge_consistent_slice");
                    let b = buf[..len].to_vec();
                    self.deliver_bytes(i, d, &b, false, obs);
                }
            }
            K_FORGEFAT => {
                // a hostile peer whose slices are otherwise consistent but carry more (or, for inner slices, other) bytes than
                // a slice holds: a last slice of 1201..2500 bytes, an inner slice of 1199 or 1201 bytes; also as the only
                // slice of a one-slice message, also after valid slices of the same message
                let i = op.a as usize % ncl;
                let d = (op.b % 2) as usize;
                let n = self.nchan(i, d);
                if n == 0 {
                    return;
                }
                let ch = (op.c % 7) as usize % n;
                let c = &self.conns[i].st[d][ch];
                let cid = c.cfg.id;
                let reliable = c.reliable();
                let base = c.base_id + c.msgs.len() as u64;
                let mid = base + (op.c / 7) % 4;
                let nsl = 1 + ((op.c / 28) % 3) as usize;
                let idx = ((op.c / 84) % nsl as u64) as usize;
                let plen = if idx == nsl - 1 {
                    [1201usize, 1250, 1290, 2500, 1200][(op.d % 5) as usize]
                } else {
                    [1199usize, 1201, 1200][(op.d % 3) as usize]
                };
                let slice = Slice { message_id: mid, slice_index: idx, num_slices: nsl, payload: vec![0xFAu8; plen].into() };
                let sequence = 3_000_000 + op.d % 100_000;
                let pkt = if reliable { Packet::ReliableSlice { sequence, channel_id: cid, slice } } else { Packet::UnreliableSlice { sequence, channel_id: cid, slice } };
                let mut buf = [0u8; 4096];
                let mut o = super::model::octets_shim::OctetsMut::with_slice(&mut buf);
                if let Ok(len) = pkt.to_bytes(&mut o) {
                    obs.count("fault.forge_fat_slice");
                    let b = buf[..len].to_vec();
                    self.deliver_bytes(i, d, &b, false, obs);
                }
            }
            K_FORGECLASH => {
                // a hostile peer that breaks id discipline on a reliable channel: one of a few message ids just above the cursor
                // is used for a small message and for sliced messages of changing slice counts, in any order
                let i = op.a as usize % ncl;
                let d = (op.b % 2) as usize;
                let n = self.nchan(i, d);
                if n == 0 {
                    return;
                }
                let ch = (op.c % 7) as usize % n;
                let c = &self.conns[i].st[d][ch];
                if !c.reliable() {
                    return;
                }
                let cid = c.cfg.id;
                let base = c.base_id + c.msgs.len() as u64;
                let mid = base + (op.c / 7) % 4;
                let sequence = 2_000_000 + op.d % 100_000;
                let pkt = if (op.c / 28) % 3 == 0 {
                    let len = [1usize, 600, 1200][(op.d % 3) as usize];
                    Packet::SmallReliable { sequence, channel_id: cid, messages: vec![(mid, vec![0xDDu8; len].into())] }
                } else {
                    let nsl = 2 + (op.d % 6) as usize;
                    let idx = ((op.d / 6) % nsl as u64) as usize;
                    let plen = if idx == nsl - 1 { [1usize, 600, 1200][((op.d / 36) % 3) as usize] } else { SLICE };
                    Packet::ReliableSlice { sequence, channel_id: cid, slice: Slice { message_id: mid, slice_index: idx, num_slices: nsl, payload: vec![0xDDu8; plen].into() } }
                };
                let mut buf = [0u8; 1500];
                let mut o = super::model::octets_shim::OctetsMut::with_slice(&mut buf);
                if let Ok(len) = pkt.to_bytes(&mut o) {
                    obs.count("fault.forge_id_clash");
                    let b = buf[..len].to_vec();
                    self.deliver_bytes(i, d, &b, false, obs);
                }
            }
            K_API => {
                let i = op.b as usize % ncl;
                self.track_sv_reasons();
                self.api_op(op.a, i, op.c, obs);
            }
            K_RECVALL => self.recv_all(obs),
            _ => {}
        }
        self.track_sv_reasons();
        if self.cfg.get("evlazy") != 1 || op.k == K_TICK {
            self.pump_events(obs);
        }
        self.check_finality(obs);
    }

    /// C12: once disconnected, always disconnected with the same reason (checked for every endpoint after every op).
    fn check_finality(&mut self, obs: &mut Obs) {
        for i in 0..self.conns.len() {
            for side in 0..2 {
                if let Some(first) = self.conns[i].ep[side].first_reason {
                    if !self.ep_exists(i, side) {
                        continue;
                    }
                    obs.count("oracle.C12.finality");
                    match self.ep_disc(i, side) {
                        None => obs.violate("C12", "disconnected-connection-revived", &reason_name(&first), format!("conn {} side {}", i, side)),
                        Some(r) if r != first => {
                            obs.violate("C12", "disconnect-reason-changed", &format!("{}->{}", reason_name(&first), reason_name(&r)), format!("conn {} side {}", i, side))
                        }
                        _ => {}
                    }
                    if let Some(ep) = self.ep_ref(i, side) {
                        if ep.is_connected() || ep.is_connecting() {
                            obs.violate("C12", "disconnected-connection-revived", "status", format!("conn {} side {}", i, side));
                        }
                    }
                }
            }
        }
    }
}
