//! Engine A: one real RenetServer + 1..4 real RenetClients joined by simulated packet links at the
//! get_packets_to_send / process_packet seam. Reference models of the send side (sent-packet map, per-item
//! ack state, timers), of the pending-ack set and message ledgers serve as oracles.
use crate::core::{Cfg, Obs, Op, World};
use crate::prng::Rng;
use renet::{Bytes, ChannelConfig, ConnectionConfig, DisconnectReason, RenetClient, RenetServer, SendType};
use std::collections::{BTreeMap, BTreeSet, HashMap};
use std::time::Duration;

mod apply;
mod gen;
mod model;

pub const OP_NAMES: &[&str] = &[
    "Submit", "Recv", "Tick", "Update", "Flush", "Deliver", "Drop", "DropAll", "DeliverAll", "Hold", "Broadcast", "Mutate", "Forge",
    "Junk", "Api", "RecvAll", "ForgeSlice", "ForgeClash", "SubmitBurst", "Churn", "SubmitHuge", "ForgeFat", "SubmitGiant", "SubmitSwarm",
];
pub const K_SUBMIT: u8 = 0;
pub const K_RECV: u8 = 1;
pub const K_TICK: u8 = 2;
pub const K_UPDATE: u8 = 3;
pub const K_FLUSH: u8 = 4;
pub const K_DELIVER: u8 = 5;
pub const K_DROP: u8 = 6;
pub const K_DROPALL: u8 = 7;
pub const K_DELIVERALL: u8 = 8;
pub const K_HOLD: u8 = 9;
pub const K_BROADCAST: u8 = 10;
pub const K_MUTATE: u8 = 11;
pub const K_FORGE: u8 = 12;
pub const K_JUNK: u8 = 13;
pub const K_API: u8 = 14;
pub const K_RECVALL: u8 = 15;
pub const K_FORGESLICE: u8 = 16;
pub const K_FORGECLASH: u8 = 17;
pub const K_SUBMITBURST: u8 = 18;
pub const K_CHURN: u8 = 19;
pub const K_SUBMITHUGE: u8 = 20;
pub const K_FORGEFAT: u8 = 21;
pub const K_SUBMITGIANT: u8 = 22;
pub const K_SUBMITSWARM: u8 = 23;

pub const UNREL: u8 = 0;
pub const REL_ORD: u8 = 1;
pub const REL_UNORD: u8 = 2;

pub const SLICE: usize = 1200;

#[derive(Clone, Debug)]
pub struct ChanCfg {
    pub id: u8,
    pub kind: u8,
    pub resend_ms: u64,
    pub max_mem: usize,
    /// the configured resend time is half a millisecond shorter than `resend_ms`: on clocks that move in whole
    /// milliseconds that is the same schedule (elapsed < R - 0.5 ms  <=>  elapsed < R), but no longer a whole number
    pub half_ms: bool,
}

impl ChanCfg {
    fn to_renet(&self) -> ChannelConfig {
        let resend_time = if self.half_ms && self.resend_ms >= 1 { Duration::from_micros(self.resend_ms * 1000 - 500) } else { Duration::from_millis(self.resend_ms) };
        ChannelConfig {
            channel_id: self.id,
            max_memory_usage_bytes: self.max_mem,
            send_type: match self.kind {
                UNREL => SendType::Unreliable,
                REL_ORD => SendType::ReliableOrdered { resend_time },
                _ => SendType::ReliableUnordered { resend_time },
            },
        }
    }
}

/// One accepted submission on a channel of a directed stream.
pub struct Msg {
    pub bytes: Bytes,
    pub nsl: usize, // 0 = small
    // reliable sender model, one entry per item (1 for small, nsl for sliced)
    pub acked: Vec<bool>,
    pub last_tx: Vec<Option<u64>>,
    pub ntx: Vec<u32>,
    pub handed: Vec<u32>,
    pub released: bool,
    pub obtained: u32,
    pub submitted_at_op: usize,
}

impl Msg {
    fn new(bytes: Bytes, at: usize) -> Msg {
        let nsl = if bytes.len() > SLICE { bytes.len().div_ceil(SLICE) } else { 0 };
        let items = nsl.max(1);
        Msg {
            bytes,
            nsl,
            acked: vec![false; items],
            last_tx: vec![None; items],
            ntx: vec![0; items],
            handed: vec![0; items],
            released: false,
            obtained: 0,
            submitted_at_op: at,
        }
    }
    pub fn items(&self) -> usize {
        self.nsl.max(1)
    }
    pub fn fully_handed(&self) -> bool {
        self.handed.iter().all(|h| *h > 0)
    }
    pub fn item_len(&self, i: usize) -> usize {
        if self.nsl == 0 {
            self.bytes.len()
        } else if i == self.nsl - 1 {
            self.bytes.len() - (self.nsl - 1) * SLICE
        } else {
            SLICE
        }
    }
}

pub struct SlicedTx {
    pub content: Bytes,
    pub deliveries: Vec<u32>,
}

/// Ledger of one channel of one directed stream (sender model + receiver model).
pub struct Chan {
    pub cfg: ChanCfg,
    pub base_id: u64,
    pub msgs: Vec<Msg>,
    pub by_content: HashMap<Bytes, Vec<usize>>,
    pub next_ordered: usize,
    // unreliable
    pub unrel_queue: Vec<usize>,
    pub allow_small: HashMap<Bytes, u32>,
    pub sliced_tx: BTreeMap<u64, SlicedTx>,
    pub obtained_by_content: HashMap<Bytes, u32>,
    pub n_obtained: u64,
}

impl Chan {
    fn new(cfg: ChanCfg, base_id: u64) -> Chan {
        Chan {
            cfg,
            base_id,
            msgs: Vec::new(),
            by_content: HashMap::new(),
            next_ordered: 0,
            unrel_queue: Vec::new(),
            allow_small: HashMap::new(),
            sliced_tx: BTreeMap::new(),
            obtained_by_content: HashMap::new(),
            n_obtained: 0,
        }
    }
    pub fn reliable(&self) -> bool {
        self.cfg.kind != UNREL
    }
}

#[derive(Clone, Debug)]
pub enum SentInfo {
    None,
    Rel { ch: usize, idxs: Vec<usize> },
    Slice { ch: usize, idx: usize, slice: usize },
    Ack { largest: u64 },
}

/// Model of one endpoint of a connection.
pub struct EpModel {
    pub clock_ms: u64,
    pub sent: BTreeMap<u64, (u64, SentInfo)>, // seq -> (sent_at_ms, info)
    pub pend: BTreeSet<u64>,                  // model of the pending-ack set
    pub pend_nr: usize,                       // number of ranges in `pend`, kept incrementally
    pub handed_seqs: BTreeSet<u64>,           // sequences of genuine packets handed to this endpoint
    pub first_reason: Option<DisconnectReason>,
    pub next_seq: Option<u64>,
    pub flushes: u64,
}

impl EpModel {
    fn new() -> EpModel {
        EpModel {
            clock_ms: 0,
            sent: BTreeMap::new(),
            pend: BTreeSet::new(),
            pend_nr: 0,
            handed_seqs: BTreeSet::new(),
            first_reason: None,
            next_seq: None,
            flushes: 0,
        }
    }
}

pub struct Dgram {
    pub bytes: Vec<u8>,
    pub deliveries: u32,
    pub n: u64,
}

pub const CL: usize = 0;
pub const SV: usize = 1;

pub struct Conn {
    pub id: u64,
    pub present: bool,
    pub client: Option<RenetClient>,
    pub local: bool,
    pub ep: [EpModel; 2],  // [CL], [SV]
    pub st: [Vec<Chan>; 2], // [0] = c2s (sender CL), [1] = s2c (sender SV)
    pub pool: [Vec<Dgram>; 2],
    pub hold: [bool; 2],
    pub tainted: bool,
    pub hostile: bool,
    pub ever_disconnected: bool,
    pub bytes_outstanding_hint: u64,
}

pub struct WorldA {
    pub cfg: Cfg,
    pub avail: u64,
    pub sch: Vec<ChanCfg>,
    pub cch: Vec<ChanCfg>,
    pub server: RenetServer,
    pub conns: Vec<Conn>,
    pub dgram_n: u64,
    pub bcast_n: u64,
    pub submit_n: u64,
    pub fam: Fam,
    pub events: Vec<renet::ServerEvent>,
    pub ev_state: HashMap<u64, bool>, // per id: currently connected per event stream
    pub api: apply::ApiState,
    /// clients whose late `set_connected` the generator has already emitted (generator state)
    pub late_done: u64,
    pub uptime_done: u64,
}

#[derive(Clone, Copy, PartialEq, Eq, Debug)]
pub enum Fam {
    Lossy,
    Hostile,
    Multi,
    Api,
    Budget,
}

pub fn parse_fam(s: &str) -> Fam {
    match s {
        "hostile" => Fam::Hostile,
        "multi" => Fam::Multi,
        "api" => Fam::Api,
        "budget" => Fam::Budget,
        _ => Fam::Lossy,
    }
}

fn chans_from_cfg(cfg: &Cfg, prefix: &str) -> Vec<ChanCfg> {
    let n = cfg.get(&format!("n{}", prefix)) as usize;
    (0..n)
        .map(|k| ChanCfg {
            id: cfg.get(&format!("{}{}_id", prefix, k)) as u8,
            kind: cfg.get(&format!("{}{}_kind", prefix, k)) as u8,
            resend_ms: cfg.get(&format!("{}{}_resend", prefix, k)),
            max_mem: cfg.get(&format!("{}{}_mem", prefix, k)) as usize,
            half_ms: cfg.get("halfms") == 1,
        })
        .collect()
}

pub fn make_world(cfg: &Cfg) -> Box<dyn World> {
    Box::new(WorldA::new(cfg))
}

impl WorldA {
    pub fn conn_config(&self) -> ConnectionConfig {
        ConnectionConfig {
            available_bytes_per_tick: self.avail,
            server_channels_config: self.sch.iter().map(|c| c.to_renet()).collect(),
            client_channels_config: self.cch.iter().map(|c| c.to_renet()).collect(),
        }
    }

    pub fn new(cfg: &Cfg) -> WorldA {
        // iteration order of the server's connection table is part of the run seed (hook H8)
        renet::verif::set_hash_seed(cfg.get("hseed"));
        let sch = chans_from_cfg(cfg, "sch");
        let cch = chans_from_cfg(cfg, "cch");
        let avail = cfg.get("avail");
        let mut w = WorldA {
            cfg: cfg.clone(),
            avail,
            sch,
            cch,
            server: RenetServer::new(ConnectionConfig::default()),
            conns: Vec::new(),
            dgram_n: 0,
            bcast_n: 0,
            submit_n: 0,
            fam: parse_fam(&cfg.family),
            events: Vec::new(),
            ev_state: HashMap::new(),
            api: apply::ApiState::default(),
            late_done: 0,
            uptime_done: 0,
        };
        w.server = RenetServer::new(w.conn_config());
        let ncl = cfg.get("ncl").max(1) as usize;
        let hostile_mask = cfg.get("hostile");
        for i in 0..ncl {
            let mut c = Conn {
                // client ids are plain u64s chosen by the application: the corners of the range are as legal as any other
                id: match cfg.get("idmode") {
                    1 => [u64::MAX, 0, u64::MAX - 1, 1][i % 4],
                    _ => 100 + i as u64,
                },
                present: false,
                client: None,
                local: false,
                ep: [EpModel::new(), EpModel::new()],
                st: [Vec::new(), Vec::new()],
                pool: [Vec::new(), Vec::new()],
                hold: [false, false],
                tainted: false,
                hostile: hostile_mask & (1 << i) != 0,
                ever_disconnected: false,
                bytes_outstanding_hint: 0,
            };
            c.present = false;
            w.conns.push(c);
        }
        let start_absent = cfg.get("start_absent");
        for i in 0..ncl {
            if start_absent & (1 << i) == 0 {
                w.connect(i, cfg.get("localcl") == 1);
            }
        }
        // drain initial connect events into the event monitor silently
        let mut obs = Obs::default();
        w.pump_events(&mut obs);
        w
    }

    /// (Re)creates connection i on both sides with fresh models.
    pub fn connect(&mut self, i: usize, local: bool) {
        let id = self.conns[i].id;
        let tele_seq = self.cfg.get("tele_seq");
        let tele_mid = self.cfg.get("tele_mid");
        let client = if local {
            self.server.new_local_client(id)
        } else {
            self.server.add_connection(id);
            let mut c = RenetClient::new(self.conn_config());
            // (lateconn: the transport reports the connection as established only later in the run — an explicit Api operation
            // chosen by the generator; a connecting client already sends and receives)
            if self.cfg.get("lateconn") != 1 {
                c.set_connected();
            }
            c
        };
        // reference event queue (C12): every insertion is owed exactly one connect event, in order
        self.api.expected.push_back(apply::ExpEvent { connected: true, id, reason: None });
        self.api.sv_first_reason.insert(id, None);
        let c = &mut self.conns[i];
        c.present = true;
        c.local = local;
        c.client = Some(client);
        c.ep = [EpModel::new(), EpModel::new()];
        c.pool = [Vec::new(), Vec::new()];
        c.hold = [false, false];
        c.tainted = false;
        c.ever_disconnected = false;
        // a local client is built from the server's channel lists in both roles (send = server channels)
        // (a local client's counters are not teleported — see below — so its message ids start at zero)
        let base = if local { 0 } else { tele_mid };
        c.st = [
            self.cch.iter().map(|x| Chan::new(x.clone(), base)).collect(),
            self.sch.iter().map(|x| Chan::new(x.clone(), base)).collect(),
        ];
        if (tele_seq > 0 || tele_mid > 0) && !local {
            let cs: Vec<(u8, u64)> = self.cch.iter().map(|x| (x.id, tele_mid)).collect();
            let ss: Vec<(u8, u64)> = self.sch.iter().map(|x| (x.id, tele_mid)).collect();
            if let Some(cl) = c.client.as_mut() {
                cl.verif_set_counters(tele_seq, &cs, &ss);
            }
            if let Some(sc) = self.server.verif_connection_mut(id) {
                sc.verif_set_counters(tele_seq, &ss, &cs);
            }
        }
    }

    // ---- access to the two real endpoints of a connection ----

    pub fn ep_disc(&self, i: usize, side: usize) -> Option<DisconnectReason> {
        let c = &self.conns[i];
        if side == CL {
            c.client.as_ref().and_then(|cl| cl.disconnect_reason())
        } else {
            self.server.disconnect_reason(c.id)
        }
    }

    pub fn ep_exists(&self, i: usize, side: usize) -> bool {
        let c = &self.conns[i];
        if side == CL {
            c.client.is_some()
        } else {
            self.server.verif_connection(c.id).is_some()
        }
    }

    pub fn ep_alive(&self, i: usize, side: usize) -> bool {
        self.ep_exists(i, side) && self.ep_disc(i, side).is_none()
    }

    pub fn ep_ref(&self, i: usize, side: usize) -> Option<&RenetClient> {
        let c = &self.conns[i];
        if side == CL {
            c.client.as_ref()
        } else {
            self.server.verif_connection(c.id)
        }
    }

    pub fn both_alive(&self, i: usize) -> bool {
        self.conns[i].present && self.ep_alive(i, CL) && self.ep_alive(i, SV)
    }

    /// Channel list used by the sender of direction d on connection i.
    pub fn nchan(&self, i: usize, d: usize) -> usize {
        self.conns[i].st[d].len()
    }
}

impl World for WorldA {
    fn gen_op(&mut self, rng: &mut Rng) -> Op {
        self.gen(rng)
    }
    fn apply(&mut self, op: &Op, obs: &mut Obs) {
        self.apply_op(op, obs)
    }
    fn epilogue(&mut self, obs: &mut Obs) {
        self.run_epilogue(obs)
    }
    fn panic_props(&self, _op: Option<&Op>) -> Vec<String> {
        match self.fam {
            Fam::Hostile => vec!["C06".into()],
            Fam::Api => vec!["C06".into(), "C12".into()],
            Fam::Multi => vec!["C06".into(), "C11".into()],
            Fam::Budget => vec!["C06".into(), "C14".into(), "C15".into()],
            Fam::Lossy => vec![
                "C06".into(),
                "C01".into(),
                "C02".into(),
                "C03".into(),
                "C08".into(),
                "C09".into(),
                "C13".into(),
                "C16".into(),
            ],
        }
    }
    fn op_names(&self) -> &'static [&'static str] {
        OP_NAMES
    }
}

/// Deterministic self-describing payload.
pub fn payload(conn: u64, dir: u64, ch: u64, ordinal: u64, len: usize) -> Bytes {
    // every third payload is handed to the library as a window into a larger buffer (a `Bytes` with an offset and spare
    // bytes behind it), the others own their buffer exactly
    let lead = if ordinal % 3 == 1 { 5 } else { 0 };
    let mut v = Vec::with_capacity(len + 2 * lead);
    v.resize(lead, 0xEE);
    let hdr = [
        0xA5u8,
        conn as u8,
        ((dir as u8) << 4) | (ch as u8 & 0xF),
        (ordinal & 0xFF) as u8,
        ((ordinal >> 8) & 0xFF) as u8,
        ((ordinal >> 16) & 0xFF) as u8,
        (len & 0xFF) as u8,
        ((len >> 8) & 0xFF) as u8,
    ];
    let mut x = crate::prng::mix(&[conn, dir, ch, ordinal, len as u64]);
    for i in 0..len {
        if i < hdr.len() {
            v.push(hdr[i]);
        } else {
            if (i - hdr.len()) % 8 == 0 {
                x = x.wrapping_mul(6364136223846793005).wrapping_add(1442695040888963407);
            }
            v.push((x >> (8 * ((i - hdr.len()) % 8))) as u8);
        }
    }
    v.resize(len + 2 * lead, 0xEE);
    Bytes::from(v).slice(lead..lead + len)
}

// --- configuration generation -----------------------------------------------------------------

pub fn gen_cfg(family: &str, rng: &mut Rng) -> Cfg {
    let mut cfg = Cfg::new("A", family);
    let fam = parse_fam(family);
    let ncl = match fam {
        Fam::Multi => rng.range(2, 4),
        Fam::Api => rng.range(1, 3),
        Fam::Hostile => rng.range(1, 3),
        _ => *rng.pick(&[1u64, 1, 1, 2, 2, 3]),
    };
    cfg.set("ncl", ncl);
    cfg.set("hseed", rng.next() >> 8);
    let avail = match fam {
        Fam::Budget => *rng.pick(&[0u64, 500, 1199, 1200, 1201, 2400, 3000, 5000, 10_000, 60_000]),
        _ => *rng.pick(&[1200u64, 2400, 2400, 5000, 10_000, 60_000, 60_000, 60_000, 4 << 20]),
    };
    cfg.set("avail", avail);
    let resend_menu = [0u64, 1, 50, 100, 100, 300, 300, 1000];
    let mem_menu: &[u64] = match fam {
        Fam::Budget | Fam::Lossy => &[3000, 5000, 20_000, 200_000, 200_000, 5 << 20],
        Fam::Hostile => &[5000, 20_000, 20_000, 200_000, 5 << 20],
        Fam::Multi => &[3000, 5000, 20_000, 200_000, 5 << 20],
        _ => &[20_000, 200_000, 5 << 20],
    };
    let same_lists = rng.chance(1, 2);
    for (pi, prefix) in ["sch", "cch"].iter().enumerate() {
        if pi == 1 && same_lists {
            // mirror the server list
            let n = cfg.get("nsch");
            cfg.set("ncch", n);
            for k in 0..n {
                for f in ["id", "kind", "resend", "mem"] {
                    let v = cfg.get(&format!("sch{}_{}", k, f));
                    cfg.set(&format!("cch{}_{}", k, f), v);
                }
            }
            continue;
        }
        let n = rng.range(1, 4);
        cfg.set(&format!("n{}", prefix), n);
        // ensure every kind shows up across families; first channel's kind is uniform
        let mut ids: Vec<u64> = Vec::new();
        for k in 0..n {
            let mut id = if rng.chance(3, 4) { k } else { rng.below(16) };
            while ids.contains(&id) {
                id = (id + 1) % 16;
            }
            ids.push(id);
            cfg.set(&format!("{}{}_id", prefix, k), id);
            cfg.set(&format!("{}{}_kind", prefix, k), rng.below(3));
            cfg.set(&format!("{}{}_resend", prefix, k), *rng.pick(&resend_menu));
            cfg.set(&format!("{}{}_mem", prefix, k), *rng.pick(mem_menu));
        }
    }
    // network profile
    cfg.set("loss", *rng.pick(&[0u64, 0, 5, 10, 20, 40, 80]));
    cfg.set("dup", *rng.pick(&[0u64, 0, 5, 20, 50]));
    cfg.set("reorder", rng.below(3));
    cfg.set("burst", if rng.chance(1, 8) { 1 } else { 0 });
    cfg.set("lenmode", rng.below(4));
    cfg.set("recvbias", rng.below(3));
    cfg.set("overflow", 0);
    cfg.set("prompt", if rng.chance(1, 3) { 1 } else { 0 });
    if rng.chance(1, 6) {
        let t = *rng.pick(&[60u64, 16_380, (1 << 30) - 40, (1u64 << 62) - 100_000_000]);
        cfg.set("tele_seq", t);
    }
    if rng.chance(1, 6) {
        let t = *rng.pick(&[60u64, 16_380, (1 << 30) - 40, (1u64 << 62) - 100_000_000]);
        cfg.set("tele_mid", t);
    }
    if matches!(fam, Fam::Budget | Fam::Lossy) && rng.chance(1, 4) {
        cfg.set("halfms", 1);
    }
    if matches!(fam, Fam::Lossy) && rng.chance(1, 5) {
        cfg.set("lateconn", 1);
    }
    if matches!(fam, Fam::Budget) && same_lists && rng.chance(1, 4) {
        // the clients are the server's own in-memory local clients (new_local_client), still joined to it by the simulated
        // link: the configured budgets and channels hold for them as for any other client
        cfg.set("localcl", 1);
        cfg.set("tele_seq", 0);
        cfg.set("tele_mid", 0);
    }
    match fam {
        Fam::Hostile => {
            let h = rng.range(1, (1 << ncl) - 1);
            cfg.set("hostile", h);
            // a transport that re-asserts the connection status before every receive (renet_steam's client transport calls
            // set_connected on every update): documented to do nothing on a disconnected client
            cfg.set("steamlike", *rng.pick(&[0u64, 0, 1]));
        }
        Fam::Multi => {
            // an application that does not look at can_send_message before it sends or broadcasts: a reliable channel that
            // cannot take a message disconnects that client (and only that client)
            cfg.set("overflow", *rng.pick(&[0u64, 0, 1]));
            cfg.set("idmode", *rng.pick(&[0u64, 0, 1]));
            if rng.chance(1, 3) {
                cfg.set("hostile", 1 << rng.below(ncl));
            }
            if rng.chance(1, 3) {
                cfg.set("start_absent", 1 << rng.below(ncl));
            }
        }
        Fam::Api => {
            cfg.set("overflow", 1);
            cfg.set("start_absent", rng.below(1 << ncl));
            cfg.set("tele_seq", 0);
            cfg.set("tele_mid", 0);
            // an application that polls server events once per tick instead of after every call
            cfg.set("evlazy", *rng.pick(&[0u64, 0, 1]));
            cfg.set("idmode", *rng.pick(&[0u64, 0, 1]));
        }
        _ => {}
    }
    // uptime: the endpoints have been running for a long time when the run starts (derived from the hash seed, no PRNG draw):
    // just below 2^32 ms (the run crosses it), about 35 days (above 2^31 ms), 2^53 ms
    let up = match cfg.get("hseed") % 8 {
        5 => (1u64 << 32) - 3000,
        6 => 1u64 << 53,
        7 => 3_000_000_000,
        _ => 0,
    };
    cfg.set("uptime", up);
    cfg
}
