#![allow(dead_code)]
//! renet-sim: deterministic simulation with fault injection for lucaspoffo/renet.
//!   renet-sim check <Cxx> [--tier quick|thorough]
//!   renet-sim replay <file>
//!   renet-sim hashes <engine> <family> <from> <count> [--workers n]      (determinism self-check)
mod checks;
mod core;
mod eng_a;
mod eng_b;
mod eng_c;
mod eng_d;
mod json;
mod prng;
mod runner;

fn main() {
    core::install_panic_hook();
    let args: Vec<String> = std::env::args().collect();
    let code = match args.get(1).map(|s| s.as_str()) {
        Some("check") => runner::cmd_check(&args[2..]),
        Some("replay") => runner::cmd_replay(&args[2..]),
        Some("hashes") => runner::cmd_hashes(&args[2..]),
        Some("shrink") => runner::cmd_shrink(&args[2..]),
        _ => {
            eprintln!("usage: renet-sim check <Cxx> [--tier quick|thorough] | replay <file> | hashes <engine> <family> <from> <count>");
            2
        }
    };
    std::process::exit(code);
}
