//! Engine D: one real NetcodeServer at the scale of its real tables (up to the 1024-client ceiling) and many light
//! honest NetcodeClients on a clean, immediate network. What varies is the schedule: batches of half-open handshakes
//! racing for the last slots, limit changes at run time (including values above the ceiling), disconnects, crashed
//! (silent) clients timing out, identities shared between addresses. Oracle: the table the events describe.
use crate::core::{Cfg, Obs, Op, World};
use crate::prng::Rng;
use renetcode::{ClientAuthentication, ConnectToken, NetcodeClient, NetcodeServer, ServerAuthentication, ServerConfig, ServerResult};
use std::collections::{BTreeMap, BTreeSet};
use std::net::{IpAddr, Ipv4Addr, SocketAddr};
use std::time::Duration;

pub const OP_NAMES: &[&str] = &["Connect", "Request", "Respond", "SetMax", "Disconnect", "Tick", "Silence", "Payload"];
const K_CONNECT: u8 = 0;
const K_REQUEST: u8 = 1;
const K_RESPOND: u8 = 2;
const K_SETMAX: u8 = 3;
const K_DISCONNECT: u8 = 4;
const K_TICK: u8 = 5;
const K_SILENCE: u8 = 6;
const K_PAYLOAD: u8 = 7;

const CEILING: usize = 1024; // renetcode's NETCODE_MAX_CLIENTS
const MAX_PENDING: usize = 4096;
const LIMITS: &[u64] = &[0, 1, 2, 3, 8, 64, 1000, 1022, 1023, 1024, 1025, 2048, 4096, 8192];
const T0_SECS: u64 = 1000;

enum Res {
    None,
    Send(SocketAddr, Vec<u8>),
    Payload(u64, Vec<u8>),
    Connected(u64, SocketAddr, Box<[u8; 256]>, Vec<u8>),
    Disconnected(u64, SocketAddr, Option<Vec<u8>>),
}

fn own(r: ServerResult) -> Res {
    match r {
        ServerResult::None => Res::None,
        ServerResult::PacketToSend { addr, payload } => Res::Send(addr, payload.to_vec()),
        ServerResult::Payload { client_id, payload } => Res::Payload(client_id, payload.to_vec()),
        ServerResult::ClientConnected { client_id, addr, user_data, payload } => Res::Connected(client_id, addr, user_data, payload.to_vec()),
        ServerResult::ClientDisconnected { client_id, addr, payload } => Res::Disconnected(client_id, addr, payload.map(|p| p.to_vec())),
    }
}

struct Light {
    addr: SocketAddr,
    id: u64,
    client: Option<NetcodeClient>,
    user_data: [u8; 256],
    silent: bool,
    /// spoke to the server in every tick since it connected (never silent): its session cannot have timed out
    chatty: bool,
    tokens_issued: u32,
}

pub struct WorldD {
    server: NetcodeServer,
    protocol_id: u64,
    key: [u8; 32],
    public: SocketAddr,
    timeout: i32,
    sv_ms: u64,
    cl: Vec<Light>,
    by_addr: BTreeMap<SocketAddr, usize>,
    /// the table as the event stream describes it: id -> address
    ev: BTreeMap<u64, SocketAddr>,
    ev_addrs: BTreeSet<SocketAddr>,
    limit_model: usize,
    highest_limit: usize,
    ever_lowered: bool,
    payload_counter: u64,
    ops_done: u64,
}

pub fn make_world(cfg: &Cfg) -> Box<dyn World> {
    Box::new(WorldD::new(cfg))
}

impl Drop for WorldD {
    fn drop(&mut self) {
        renetcode::verif_rng::install(None);
    }
}

fn light_addr(i: usize) -> SocketAddr {
    SocketAddr::new(IpAddr::V4(Ipv4Addr::new(10, 1, (i / 250) as u8, (i % 250) as u8 + 1)), 4000 + (i % 7) as u16)
}

impl WorldD {
    fn new(cfg: &Cfg) -> WorldD {
        let mut sut_rng = Rng::new(cfg.get("sutseed") ^ 0x5EED_0D0D);
        renetcode::verif_rng::install(Some(Box::new(move |buf: &mut [u8]| sut_rng.fill(buf))));
        let mut krng = Rng::new(cfg.get("sutseed") ^ 0xCD);
        let mut key = [0u8; 32];
        krng.fill(&mut key);
        let protocol_id = 0x7788_0000 + cfg.get("proto");
        let public = SocketAddr::new(IpAddr::V4(Ipv4Addr::new(10, 0, 0, 1)), 5000);
        let max_clients = (cfg.get("maxcl") as usize).clamp(1, CEILING);
        let server = NetcodeServer::new(ServerConfig {
            current_time: Duration::from_secs(T0_SECS),
            max_clients,
            protocol_id,
            public_addresses: vec![public],
            authentication: ServerAuthentication::Secure { private_key: key },
        });
        let n = cfg.get("nclients").max(2) as usize;
        let idmod = cfg.get("idmod") as usize;
        let mut cl = Vec::with_capacity(n);
        let mut by_addr = BTreeMap::new();
        for i in 0..n {
            let id = if idmod > 0 { 1 + (i % idmod) as u64 } else { 1 + i as u64 };
            let mut user_data = [0u8; 256];
            let mut r = Rng::new(crate::prng::mix(&[i as u64, id, 0xD0]));
            r.fill(&mut user_data);
            by_addr.insert(light_addr(i), i);
            cl.push(Light { addr: light_addr(i), id, client: None, user_data, silent: false, chatty: false, tokens_issued: 0 });
        }
        let timeout = match cfg.get("timeout") {
            0 => -1,
            t => t as i32,
        };
        WorldD {
            server,
            protocol_id,
            key,
            public,
            timeout,
            sv_ms: T0_SECS * 1000,
            cl,
            by_addr,
            ev: BTreeMap::new(),
            ev_addrs: BTreeSet::new(),
            limit_model: max_clients,
            highest_limit: max_clients,
            ever_lowered: false,
            payload_counter: 0,
            ops_done: 0,
        }
    }

    fn idle(&self, i: usize) -> bool {
        // no client object, or one that has given up; its address must not be in the server's table any more
        let c = &self.cl[i];
        !c.silent && c.client.as_ref().map(|c| c.is_disconnected()).unwrap_or(true) && !self.ev_addrs.contains(&c.addr)
    }

    fn fresh_client(&mut self, i: usize) {
        let c = &mut self.cl[i];
        c.tokens_issued += 1;
        let token = ConnectToken::generate(Duration::from_millis(self.sv_ms), self.protocol_id, 3600, c.id, self.timeout, vec![self.public], Some(&c.user_data), &self.key).expect("token");
        c.client = Some(NetcodeClient::new(Duration::from_millis(self.sv_ms), ClientAuthentication::Secure { connect_token: token }).expect("client"));
        c.chatty = false;
    }

    /// The client's next datagram (request, response or keep-alive), if it has one to send now.
    fn client_out(&mut self, i: usize, dt: u64) -> Option<Vec<u8>> {
        let c = self.cl[i].client.as_mut()?;
        c.update(Duration::from_millis(dt)).map(|(p, _)| p.to_vec())
    }

    /// Hands one datagram from client `i` to the server, applies the event oracles, delivers the reply. Returns the reply kind.
    fn to_server(&mut self, i: usize, mut dg: Vec<u8>, obs: &mut Obs) -> &'static str {
        let addr = self.cl[i].addr;
        let before = self.ev.len();
        let full_before = before >= self.limit_model;
        let ptype = dg[0] & 0xF;
        let res = own(self.server.process_packet(addr, &mut dg));
        let kind = self.on_result(res, Some(i), obs);
        if ptype == 0 && full_before && kind == "challenge" {
            obs.count("oracle.C10.full_server_refuses");
            obs.violate("C10", "handshake-admitted-while-full", "request", format!("{} sessions, limit {}: request from {} answered with a challenge", before, self.limit_model, addr));
        } else if ptype == 0 && full_before {
            obs.count("oracle.C10.full_server_refuses");
        }
        kind
    }

    fn on_result(&mut self, res: Res, from: Option<usize>, obs: &mut Obs) -> &'static str {
        match res {
            Res::None => "none",
            Res::Send(to, mut bytes) => {
                let kind = match bytes.first().map(|b| b & 0xF) {
                    Some(1) => "denied",
                    Some(2) => "challenge",
                    Some(4) => "keepalive",
                    Some(5) => "payload",
                    Some(6) => "disconnect",
                    _ => "other",
                };
                if let Some(&j) = self.by_addr.get(&to) {
                    if !self.cl[j].silent {
                        if let Some(c) = self.cl[j].client.as_mut() {
                            let _ = c.process_packet(&mut bytes);
                        }
                    }
                }
                kind
            }
            Res::Payload(id, _) => {
                obs.count("oracle.C10.payload_routing");
                if let Some(i) = from {
                    if self.cl[i].id != id || self.ev.get(&id) != Some(&self.cl[i].addr) {
                        obs.violate("C10", "payload-attributed-to-wrong-session", "server", format!("payload from {} (id {}) reported for id {}", self.cl[i].addr, self.cl[i].id, id));
                    }
                }
                "payload-up"
            }
            Res::Connected(id, addr, user_data, mut bytes) => {
                obs.count("oracle.C10.connect_event");
                let before = self.ev.len();
                if self.ev.contains_key(&id) {
                    obs.violate("C10", "two-connect-events-without-disconnect", "events", format!("id {} connected again from {}", id, addr));
                }
                if self.ev_addrs.contains(&addr) {
                    obs.violate("C10", "duplicate-address", "events", format!("address {} connected again as id {}", addr, id));
                }
                if !self.ever_lowered && before >= self.limit_model {
                    obs.violate("C10", "more-clients-than-max_clients", "connect", format!("{} sessions + 1 with limit {} (never lowered)", before, self.limit_model));
                }
                if before >= self.highest_limit {
                    obs.violate("C10", "more-clients-than-any-limit-ever-set", "connect", format!("{} sessions + 1, highest limit ever {}", before, self.highest_limit));
                }
                match self.by_addr.get(&addr) {
                    Some(&j) => {
                        if self.cl[j].id != id || self.cl[j].user_data != *user_data {
                            obs.violate("C10", "connect-event-names-wrong-identity", "events", format!("address {} holds id {}, event says {}", addr, self.cl[j].id, id));
                        }
                        if !self.cl[j].silent {
                            if let Some(c) = self.cl[j].client.as_mut() {
                                let _ = c.process_packet(&mut bytes);
                            }
                            self.cl[j].chatty = true;
                        }
                    }
                    None => obs.violate("C10", "connect-event-for-unknown-address", "events", format!("{}", addr)),
                }
                self.ev.insert(id, addr);
                self.ev_addrs.insert(addr);
                "connected"
            }
            Res::Disconnected(id, addr, bytes) => {
                obs.count("oracle.C10.disconnect_event");
                match self.ev.get(&id) {
                    None => obs.violate("C10", "disconnect-event-without-connect", "events", format!("id {} at {}", id, addr)),
                    Some(a) if *a != addr => obs.violate("C10", "disconnect-event-names-other-address", "events", format!("id {}: connected from {}, disconnected at {}", id, a, addr)),
                    _ => {}
                }
                if let Some(a) = self.ev.remove(&id) {
                    self.ev_addrs.remove(&a);
                }
                if let (Some(mut b), Some(&j)) = (bytes, self.by_addr.get(&addr)) {
                    if !self.cl[j].silent {
                        if let Some(c) = self.cl[j].client.as_mut() {
                            let _ = c.process_packet(&mut b);
                        }
                    }
                }
                "disconnected"
            }
        }
    }

    /// Request stage for client `i` (fresh token, fresh client object). Returns the reply kind.
    fn request(&mut self, i: usize, obs: &mut Obs) -> &'static str {
        self.fresh_client(i);
        match self.client_out(i, 0) {
            Some(dg) => self.to_server(i, dg, obs),
            None => "no-request",
        }
    }

    /// Response stage: a client that holds a challenge sends its response.
    fn respond(&mut self, i: usize, obs: &mut Obs) -> &'static str {
        // a received challenge clears the client's send timer: its next update emits the response (or, for a client that
        // is still waiting for a challenge, nothing until the send rate allows another request)
        match self.client_out(i, 0) {
            Some(dg) => self.to_server(i, dg, obs),
            None => "nothing",
        }
    }

    fn pending_len(&self) -> usize {
        self.server.verif_pending().len()
    }

    fn check_table(&mut self, full: bool, obs: &mut Obs) {
        obs.count("oracle.C10.table_matches_events");
        let n = self.server.connected_clients();
        if n != self.ev.len() {
            obs.violate("C10", "connected-count-differs-from-events", "connected_clients", format!("{} vs {} by events", n, self.ev.len()));
        }
        if !self.ever_lowered && n > self.limit_model {
            obs.violate("C10", "more-clients-than-max_clients", "table", format!("{} sessions with limit {} (never lowered)", n, self.limit_model));
        }
        if self.server.max_clients() != self.limit_model {
            obs.violate("C10", "limit-accessor-disagrees", "max_clients", format!("{} vs {}", self.server.max_clients(), self.limit_model));
        }
        if !full {
            return;
        }
        obs.count("oracle.C10.table_full_comparison");
        let ids = self.server.clients_id();
        let set: BTreeSet<u64> = ids.iter().copied().collect();
        if set.len() != ids.len() {
            obs.violate("C10", "duplicate-client-id", "clients_id", format!("{} entries, {} distinct", ids.len(), set.len()));
        }
        let want: BTreeSet<u64> = self.ev.keys().copied().collect();
        if set != want {
            let extra: Vec<&u64> = set.difference(&want).take(4).collect();
            let missing: Vec<&u64> = want.difference(&set).take(4).collect();
            obs.violate("C10", "table-differs-from-events", "clients_id", format!("in table only {:?}, by events only {:?}", extra, missing));
        }
        let mut addrs = BTreeSet::new();
        for (id, a) in &self.ev {
            match self.server.client_addr(*id) {
                Some(x) if x == *a => {}
                other => obs.violate("C10", "lookup-by-id-refers-to-other-session", "client_addr", format!("id {}: {:?}, connected from {}", id, other, a)),
            }
            if !addrs.insert(*a) {
                obs.violate("C10", "duplicate-address", "table", format!("{}", a));
            }
            if let Some(&j) = self.by_addr.get(a) {
                if self.server.user_data(*id) != Some(self.cl[j].user_data) {
                    obs.violate("C10", "lookup-by-id-refers-to-other-session", "user_data", format!("id {}", id));
                }
            }
        }
    }
}

impl World for WorldD {
    fn gen_op(&mut self, rng: &mut Rng) -> Op {
        let n = self.cl.len() as u64;
        let lim = self.limit_model as u64;
        let cnt = self.ev.len() as u64;
        let first_idle = (0..self.cl.len()).find(|&i| self.idle(i)).unwrap_or(0) as u64;
        match rng.below(100) {
            0..=21 => {
                let count = if lim > cnt + 4 && rng.chance(2, 3) { lim - cnt - rng.below(4) } else { 1 + rng.below(4) };
                let first = if rng.chance(3, 4) { first_idle } else { rng.below(n) };
                Op::new(K_CONNECT, first, count.min(n), 0, 0)
            }
            22..=41 => {
                let first = if rng.chance(1, 2) { first_idle } else { rng.below(n) };
                Op::new(K_REQUEST, first, 1 + rng.below(6), 0, 0)
            }
            42..=61 => Op::new(K_RESPOND, rng.below(n), if rng.chance(3, 4) { n } else { 1 + rng.below(4) }, rng.below(2), 0),
            62..=69 => Op::new(K_SETMAX, rng.below(LIMITS.len() as u64), rng.below(3), 0, 0),
            70..=79 => {
                let count = if rng.chance(1, 6) { 1 + cnt / 2 } else { 1 + rng.below(4) };
                Op::new(K_DISCONNECT, rng.below(n.max(1)), count, rng.below(2), 0)
            }
            80..=90 => Op::new(K_TICK, *rng.pick(&[0u64, 100, 250, 1000, 2000]), 0, 0, 0),
            91..=94 => Op::new(K_SILENCE, rng.below(n), 1 + rng.below(3), rng.below(4), 0),
            _ => Op::new(K_PAYLOAD, rng.below(n), rng.below(2), rng.below(1200), 0),
        }
    }

    fn apply(&mut self, op: &Op, obs: &mut Obs) {
        let n = self.cl.len();
        self.ops_done += 1;
        obs.abs.u64(op.k as u64);
        match op.k {
            K_CONNECT => {
                // sequential, complete handshakes
                let count = (op.b as usize).min(n);
                obs.count("op.connect_batch");
                for k in 0..count {
                    let i = (op.a as usize + k) % n;
                    if !self.idle(i) {
                        continue;
                    }
                    let id = self.cl[i].id;
                    // must succeed: room, identity and address free, half-open table not exhausted
                    let must = self.ev.len() < self.limit_model && !self.ev.contains_key(&id) && self.pending_len() < MAX_PENDING;
                    let r1 = self.request(i, obs);
                    let r2 = if r1 == "challenge" { self.respond(i, obs) } else { "skipped" };
                    obs.count("op.handshake");
                    if must {
                        obs.count("oracle.C10.handshake_with_room_succeeds");
                        obs.count("oracle.C18.handshake_with_room_succeeds");
                        let ok = r2 == "connected" && self.cl[i].client.as_ref().map(|c| c.is_connected()).unwrap_or(false) && self.ev.get(&id) == Some(&self.cl[i].addr);
                        if !ok {
                            let stage = if r1 != "challenge" { "request" } else { "response" };
                            let detail = format!("client {} id {}: request -> {}, response -> {}; {} sessions, limit {}", i, id, r1, r2, self.ev.len(), self.limit_model);
                            obs.violate("C10", "handshake-refused-with-room", stage, detail.clone());
                            // C18: an honest client with a valid token and a lossless path connects to a server that has room
                            obs.violate("C18", "handshake-refused-with-room", stage, detail);
                        }
                    }
                }
                obs.abs.u64(0x100 + (self.ev.len() as u64).min(3) + 4 * (self.ev.len() >= self.limit_model) as u64);
            }
            K_REQUEST => {
                let count = (op.b as usize).min(n);
                let mut challenged = 0;
                for k in 0..count {
                    let i = (op.a as usize + k) % n;
                    if !self.idle(i) {
                        continue;
                    }
                    if self.request(i, obs) == "challenge" {
                        challenged += 1;
                    }
                }
                if challenged >= 2 {
                    obs.count("fault.racing_half_open_batch");
                }
                let free = self.limit_model.saturating_sub(self.ev.len());
                if challenged > free {
                    obs.count("probe.more_half_open_than_free_slots");
                }
                obs.abs.u64(0x200 + challenged.min(7) as u64);
            }
            K_RESPOND => {
                let count = (op.b as usize).min(n);
                let mut outcomes = [0u64; 3];
                for k in 0..count {
                    let kk = if op.c % 2 == 1 { count - 1 - k } else { k };
                    let i = (op.a as usize + kk) % n;
                    let holding = !self.cl[i].silent && self.cl[i].client.as_ref().map(|c| c.is_connecting()).unwrap_or(false);
                    if !holding {
                        continue;
                    }
                    match self.respond(i, obs) {
                        "connected" => outcomes[0] += 1,
                        "denied" => outcomes[1] += 1,
                        _ => outcomes[2] += 1,
                    }
                }
                if outcomes[1] > 0 {
                    obs.count("probe.response_denied_for_lack_of_room");
                }
                obs.abs.u64(0x300 + outcomes[0].min(3) + 4 * outcomes[1].min(3));
            }
            K_SETMAX => {
                let v = LIMITS[op.a as usize % LIMITS.len()] as usize;
                let v = if op.b == 1 { self.ev.len() } else if op.b == 2 { self.ev.len() + 1 } else { v };
                let pend_before = self.server.verif_pending();
                self.server.set_max_clients(v);
                let eff = v.min(CEILING);
                if eff < self.limit_model {
                    self.ever_lowered = true;
                    obs.count("fault.limit_lowered");
                } else if eff > self.limit_model {
                    obs.count("fault.limit_raised");
                }
                if v > CEILING {
                    obs.count("probe.limit_argument_above_ceiling");
                }
                self.limit_model = eff;
                self.highest_limit = self.highest_limit.max(eff);
                obs.count("oracle.C10.limit_change");
                if self.server.verif_pending() != pend_before {
                    obs.violate("C10", "limit-change-altered-table", "half-open", format!("set_max_clients({})", v));
                }
                self.check_table(true, obs);
                obs.abs.u64(0x400 + (op.a % LIMITS.len() as u64));
            }
            K_DISCONNECT => {
                let count = op.b as usize;
                for k in 0..count {
                    if op.c % 2 == 0 {
                        // the server ends a session
                        let ids: Vec<u64> = self.ev.keys().copied().collect();
                        if ids.is_empty() {
                            break;
                        }
                        let id = ids[(op.a as usize + k * 7) % ids.len()];
                        obs.count("fault.server_disconnect");
                        let res = own(self.server.disconnect(id));
                        match res {
                            Res::Disconnected(..) => {
                                self.on_result(res, None, obs);
                            }
                            _ => obs.violate("C10", "disconnect-of-connected-client-not-reported", "server.disconnect", format!("id {}", id)),
                        }
                    } else {
                        let i = (op.a as usize + k) % n;
                        if self.cl[i].silent {
                            continue;
                        }
                        let out = match self.cl[i].client.as_mut() {
                            Some(c) if c.is_connected() => c.disconnect().ok().map(|(_, b)| b.to_vec()),
                            _ => None,
                        };
                        if let Some(dg) = out {
                            obs.count("fault.client_disconnect");
                            self.to_server(i, dg, obs);
                        }
                    }
                }
                obs.abs.u64(0x500 + op.c % 2);
            }
            K_TICK => {
                let dt = op.a.min(2000);
                self.sv_ms += dt;
                obs.sim_ms += dt;
                self.server.update(Duration::from_millis(dt));
                // clients speak first (their keep-alives reach the server before its per-client pass)
                for i in 0..n {
                    if self.cl[i].silent || self.cl[i].client.is_none() {
                        continue;
                    }
                    if let Some(dg) = self.client_out(i, dt) {
                        self.to_server(i, dg, obs);
                    }
                }
                let ids = self.server.clients_id();
                for id in ids {
                    let res = own(self.server.update_client(id));
                    if let Res::Disconnected(_, addr, _) = &res {
                        obs.count("probe.server_timed_out_client");
                        if let Some(&j) = self.by_addr.get(addr) {
                            if self.cl[j].chatty && self.cl[j].id == id {
                                obs.count("oracle.C10.sessions_undisturbed");
                                obs.violate("C10", "healthy-session-ended", "update_client", format!("id {} at {} spoke in every tick", id, addr));
                            }
                        }
                    }
                    self.on_result(res, None, obs);
                }
                obs.abs.u64(0x600);
            }
            K_SILENCE => {
                for k in 0..op.b as usize {
                    let i = (op.a as usize + k) % n;
                    if op.c % 4 == 0 && self.cl[i].silent {
                        // the host comes back with nothing in memory
                        self.cl[i].silent = false;
                        self.cl[i].client = None;
                    } else if self.cl[i].client.is_some() {
                        self.cl[i].silent = true;
                        self.cl[i].chatty = false;
                        obs.count("fault.client_crash");
                    }
                }
                obs.abs.u64(0x700);
            }
            K_PAYLOAD => {
                let i = op.a as usize % n;
                let c = &self.cl[i];
                let connected = !c.silent && c.client.as_ref().map(|c| c.is_connected()).unwrap_or(false) && self.ev.get(&c.id) == Some(&c.addr);
                if connected {
                    self.payload_counter += 1;
                    let mut bytes = vec![0u8; 1 + (op.c as usize % 1200)];
                    Rng::new(self.payload_counter ^ 0xFACE).fill(&mut bytes);
                    let id = self.cl[i].id;
                    if op.b % 2 == 0 {
                        let dg = self.cl[i].client.as_mut().unwrap().generate_payload_packet(&bytes).ok().map(|(_, b)| b.to_vec());
                        if let Some(dg) = dg {
                            obs.count("oracle.C10.payload_routing");
                            let addr = self.cl[i].addr;
                            let mut dg = dg;
                            match own(self.server.process_packet(addr, &mut dg)) {
                                Res::Payload(pid, got) if pid == id && got == bytes => {}
                                Res::Payload(pid, _) => obs.violate("C10", "payload-attributed-to-wrong-session", "server", format!("sent by id {}, reported for id {}", id, pid)),
                                _ => obs.violate("C10", "payload-of-connected-client-not-surfaced", "server", format!("id {} at {}", id, addr)),
                            }
                        }
                    } else {
                        let out = self.server.generate_payload_packet(id, &bytes).ok().map(|(a, b)| (a, b.to_vec()));
                        obs.count("oracle.C10.payload_routing");
                        match out {
                            Some((to, mut dg)) => {
                                if to != self.cl[i].addr {
                                    obs.violate("C10", "lookup-by-id-refers-to-other-session", "generate_payload_packet", format!("id {}: addressed to {}, session is at {}", id, to, self.cl[i].addr));
                                } else {
                                    let got = self.cl[i].client.as_mut().unwrap().process_packet(&mut dg).map(|p| p.to_vec());
                                    if got.as_deref() != Some(&bytes[..]) {
                                        obs.violate("C10", "lookup-by-id-refers-to-other-session", "payload-keys", format!("id {}: the client cannot open the server's payload", id));
                                    }
                                }
                            }
                            None => obs.violate("C10", "lookup-by-id-refers-to-other-session", "generate_payload_packet", format!("id {} connected by events, no packet", id)),
                        }
                    }
                }
                obs.abs.u64(0x800 + connected as u64);
            }
            _ => {}
        }
        let small = self.ev.len() <= 64;
        self.check_table(small || self.ops_done % 8 == 0, obs);
        obs.log.u64(self.ev.len() as u64);
        obs.log.u64(self.limit_model as u64);
        if self.ev.len() + 1 >= CEILING {
            obs.count("probe.table_at_the_ceiling");
        }
    }

    fn epilogue(&mut self, obs: &mut Obs) {
        self.check_table(true, obs);
        // heal: everybody who is not crashed and not connected tries once more, in order, while there is room
        let n = self.cl.len();
        for i in 0..n {
            if self.ev.len() >= self.limit_model {
                break;
            }
            if !self.idle(i) || self.ev.contains_key(&self.cl[i].id) || self.pending_len() >= MAX_PENDING {
                continue;
            }
            let id = self.cl[i].id;
            let r1 = self.request(i, obs);
            let r2 = if r1 == "challenge" { self.respond(i, obs) } else { "skipped" };
            obs.count("oracle.C10.handshake_with_room_succeeds");
            obs.count("oracle.C18.handshake_with_room_succeeds");
            if r2 != "connected" || self.ev.get(&id) != Some(&self.cl[i].addr) {
                let detail = format!("client {} id {}: request -> {}, response -> {}; {} sessions, limit {}", i, id, r1, r2, self.ev.len(), self.limit_model);
                obs.violate("C10", "handshake-refused-with-room", "heal", detail.clone());
                obs.violate("C18", "handshake-refused-with-room", "heal", detail);
                break;
            }
        }
        self.check_table(true, obs);
        obs.log.u64(self.ev.len() as u64);
    }

    fn panic_props(&self, _op: Option<&Op>) -> Vec<String> {
        vec!["C10".to_string(), "C18".to_string()]
    }

    fn op_names(&self) -> &'static [&'static str] {
        OP_NAMES
    }
}

pub fn gen_cfg(family: &str, rng: &mut Rng) -> Cfg {
    let mut cfg = Cfg::new("D", family);
    cfg.set("sutseed", rng.next() >> 1);
    cfg.set("proto", rng.below(4));
    cfg.set("timeout", *rng.pick(&[5u64, 15, 0]));
    if rng.chance(1, 6) {
        // the real table sizes: a server at (or one below) the 1024-client ceiling, more hosts than slots
        cfg.set("nclients", 1100);
        cfg.set("maxcl", *rng.pick(&[1000u64, 1022, 1023, 1024, 1024]));
        cfg.set("idmod", *rng.pick(&[0u64, 0, 0, 1090]));
    } else {
        let n = rng.range(4, 14);
        cfg.set("nclients", n);
        cfg.set("maxcl", rng.range(1, 6));
        cfg.set("idmod", *rng.pick(&[0u64, 0, n / 2, n - 1]));
    }
    cfg
}
